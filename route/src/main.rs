//! vroute - sub-check of C18: the HTTP route of saito-rust that serves lite blocks.
//!
//! The real warp server (saito_rust::network_controller::run_network_controller) is started on
//! 127.0.0.1 in a scratch working directory that holds generated, signed block files. Generated
//! sequences of {request a lite block for a key, update the registered key list of the requesting
//! peer, request an unknown block} are executed over real HTTP; every answer is compared with the
//! projection computed directly: Block::generate_lite_block(peer.key_list + [key]) of the block
//! read from the same file, serialised for the wire (differential oracle), and with the
//! projection's own contract (the header, every transaction touching the key list).
//!
//! usage: vroute <scratch-dir> <seed> <cases>
//! output (stdout, one JSON object): cases, requests, nontrivial, classes, violations[]

use std::collections::BTreeMap;
use std::sync::Arc;

use proptest::prelude::*;
use proptest::test_runner::{Config, RngAlgorithm, RngSeed, TestCaseError, TestError, TestRng, TestRunner};
use saito_core::core::consensus::block::{Block, BlockType};
use saito_core::core::consensus::blockchain::Blockchain;
use saito_core::core::consensus::peers::peer::{Peer, PeerStatus};
use saito_core::core::consensus::peers::peer_collection::PeerCollection;
use saito_core::core::consensus::slip::Slip;
use saito_core::core::consensus::transaction::{Transaction, TransactionType};
use saito_core::core::consensus::wallet::Wallet;
use saito_core::core::defs::{SaitoPrivateKey, SaitoPublicKey};
use saito_core::core::process::keep_time::Timer;
use saito_core::core::util::configuration::Configuration;
use saito_core::core::util::crypto::generate_keypair_from_private_key;
use saito_rust::config_handler::{ConfigHandler, NodeConfigurations};
use saito_rust::io_event::IoEvent;
use saito_rust::time_keeper::TimeKeeper;
use serde::{Deserialize, Serialize};
use tokio::io::{AsyncReadExt, AsyncWriteExt};
use tokio::sync::RwLock;

type KeyPair = (SaitoPublicKey, SaitoPrivateKey);
fn key(i: u8) -> KeyPair {
    generate_keypair_from_private_key(&[i.wrapping_add(1).max(1); 32])
}

#[derive(Debug, Clone, Serialize, Deserialize, PartialEq)]
enum Op {
    /// GET /lite-block/<hash of block b>/<client key, hex or base58>
    Request { b: u8, base58: bool },
    /// the client's registered key list becomes the keys selected by the mask (KeyListUpdate)
    SetKeyList { mask: u8 },
    /// a hash the node does not have
    RequestUnknown,
}

fn arb_ops() -> impl Strategy<Value = Vec<Op>> {
    proptest::collection::vec(
        prop_oneof![
            4 => (0u8..4, any::<bool>()).prop_map(|(b, base58)| Op::Request { b, base58 }),
            3 => (0u8..32).prop_map(|mask| Op::SetKeyList { mask }),
            1 => Just(Op::RequestUnknown),
        ],
        2..10,
    )
}

/// Four signed blocks with 2..7 transactions between keys 1..=5.
fn build_blocks() -> Vec<Block> {
    let creator = key(7);
    let mut out = vec![];
    for bi in 0..4u64 {
        let mut b = Block::new();
        b.id = 10 + bi;
        b.timestamp = 1_234_567 + bi * 1000;
        b.previous_block_hash = [3 + bi as u8; 32];
        b.creator = creator.0;
        b.burnfee = 50_000_000;
        b.difficulty = 2;
        b.treasury = 11;
        b.graveyard = 12;
        b.total_fees = 13;
        b.avg_total_fees = 14;
        b.avg_total_fees_atr = 19;
        b.avg_fee_per_byte = 15;
        let ntx = 2 + (bi as usize * 2) % 6;
        for i in 0..ntx {
            let payer = key(1 + ((i + bi as usize) % 5) as u8);
            let payee = key(1 + ((i * 2 + 1 + bi as usize) % 5) as u8);
            let mut t = Transaction::default();
            t.timestamp = 1000 + i as u64;
            let mut s = Slip::default();
            s.public_key = payer.0;
            s.amount = 1000 + i as u64;
            s.block_id = 3;
            s.tx_ordinal = i as u64;
            t.add_from_slip(s);
            let mut o = Slip::default();
            o.public_key = payee.0;
            o.amount = 900 + i as u64;
            t.add_to_slip(o);
            t.transaction_type = TransactionType::Normal;
            t.data = vec![i as u8; (i % 5) * 3];
            t.sign(&payer.1);
            b.transactions.push(t);
        }
        b.created_hashmap_of_slips_spent_this_block = true;
        let _ = b.generate();
        b.sign(&creator.1);
        let _ = b.generate();
        out.push(b);
    }
    out
}

async fn http_get(port: u16, path: &str) -> Result<(u16, Vec<u8>), String> {
    let mut s = tokio::net::TcpStream::connect(("127.0.0.1", port)).await.map_err(|e| format!("connect: {e}"))?;
    let req = format!("GET {path} HTTP/1.1\r\nHost: 127.0.0.1\r\nConnection: close\r\n\r\n");
    s.write_all(req.as_bytes()).await.map_err(|e| format!("write: {e}"))?;
    let mut buf = vec![];
    s.read_to_end(&mut buf).await.map_err(|e| format!("read: {e}"))?;
    let pos = buf.windows(4).position(|w| w == b"\r\n\r\n").ok_or("no header end")?;
    let head = String::from_utf8_lossy(&buf[..pos]).to_string();
    let status: u16 = head.split_whitespace().nth(1).and_then(|x| x.parse().ok()).ok_or("no status")?;
    let mut body = buf[pos + 4..].to_vec();
    if head.to_ascii_lowercase().contains("transfer-encoding: chunked") {
        // de-chunk
        let mut out = vec![];
        let mut i = 0;
        while i < body.len() {
            let e = match body[i..].windows(2).position(|w| w == b"\r\n") {
                Some(e) => e,
                None => break,
            };
            let n = usize::from_str_radix(String::from_utf8_lossy(&body[i..i + e]).trim(), 16).unwrap_or(0);
            if n == 0 {
                break;
            }
            let st = i + e + 2;
            out.extend_from_slice(&body[st..(st + n).min(body.len())]);
            i = st + n + 2;
        }
        body = out;
    }
    Ok((status, body))
}

struct World {
    port: u16,
    blocks: Vec<Block>,
    peers: Arc<RwLock<PeerCollection>>,
    client: KeyPair,
}

/// Runs one generated sequence; returns the violations found and the number of requests made.
async fn run_case(w: &World, ops: &[Op]) -> (Vec<(String, String)>, usize, bool) {
    let mut v = vec![];
    let mut requests = 0;
    let mut list_changed_between_requests_of_same_block = false;
    let mut asked: BTreeMap<u8, Vec<SaitoPublicKey>> = BTreeMap::new();
    // every case starts from an empty key list
    {
        let mut p = w.peers.write().await;
        if let Some(peer) = p.index_to_peers.get_mut(&1) {
            peer.key_list = vec![];
        }
    }
    for (step, op) in ops.iter().enumerate() {
        match op {
            Op::SetKeyList { mask } => {
                let mut p = w.peers.write().await;
                if let Some(peer) = p.index_to_peers.get_mut(&1) {
                    peer.key_list = (0..5u8).filter(|i| (mask >> i) & 1 == 1).map(|i| key(1 + i).0).collect();
                }
            }
            Op::RequestUnknown => {
                requests += 1;
                let path = format!("/lite-block/{}/{}", hex::encode([0xEEu8; 32]), hex::encode(w.client.0));
                match http_get(w.port, &path).await {
                    Ok((status, _)) => {
                        if status == 200 {
                            v.push(("C18|route|unknown_block_served".into(), format!("step {step}: the route answered 200 for a block hash the node does not have")));
                        }
                    }
                    Err(e) => v.push(("UNAVAILABLE".into(), format!("step {step}: {e}"))),
                }
            }
            Op::Request { b, base58 } => {
                requests += 1;
                let blk = &w.blocks[*b as usize % w.blocks.len()];
                let keylist_now: Vec<SaitoPublicKey> = {
                    let p = w.peers.read().await;
                    let mut k = p.index_to_peers.get(&1).map(|x| x.key_list.clone()).unwrap_or_default();
                    k.push(w.client.0);
                    k
                };
                if let Some(prev) = asked.get(b) {
                    if prev != &keylist_now {
                        list_changed_between_requests_of_same_block = true;
                    }
                }
                asked.insert(*b, keylist_now.clone());
                let keystr = if *base58 { saito_core::core::defs::PrintForLog::to_base58(&w.client.0) } else { hex::encode(w.client.0) };
                let path = format!("/lite-block/{}/{}", hex::encode(blk.hash), keystr);
                let (status, body) = match http_get(w.port, &path).await {
                    Ok(x) => x,
                    Err(e) => {
                        v.push(("UNAVAILABLE".into(), format!("step {step}: {e}")));
                        continue;
                    }
                };
                if status != 200 {
                    v.push(("C18|route|known_block_not_served".into(), format!("step {step}: status {status} for block id {}", blk.id)));
                    continue;
                }
                // differential: the projection computed directly for the key list registered now
                let want = blk.generate_lite_block(keylist_now.clone()).serialize_for_net(BlockType::Full);
                if body != want {
                    // say what differs in terms of the projection's contract
                    let detail = match Block::deserialize_from_net(&body) {
                        Ok(mut got) => {
                            let _ = got.generate();
                            let touching: Vec<usize> = blk
                                .transactions
                                .iter()
                                .enumerate()
                                .filter(|(_, t)| t.from.iter().chain(t.to.iter()).any(|s| keylist_now.contains(&s.public_key)))
                                .map(|(i, _)| i)
                                .collect();
                            let full: Vec<&Transaction> = got.transactions.iter().filter(|t| t.transaction_type != TransactionType::SPV).collect();
                            let missing = touching.iter().filter(|i| !full.iter().any(|t| t.signature == blk.transactions[**i].signature)).count();
                            format!("hash as signed: {}; {} of {} transactions touching the registered key list are not contained in full", got.hash == blk.hash, missing, touching.len())
                        }
                        Err(_) => "the answer does not decode".to_string(),
                    };
                    v.push((
                        "C18|route|served_lite_block_differs_from_projection".into(),
                        format!("step {step}: GET {path} with {} registered keys: the served bytes differ from generate_lite_block(key list + key) of the stored block ({detail})", keylist_now.len() - 1),
                    ));
                }
            }
        }
        if !v.is_empty() {
            break;
        }
    }
    (v, requests, list_changed_between_requests_of_same_block)
}

/// A fresh server (own port, own peer collection, whatever state the route keeps) for one case.
async fn start_world(port: u16, blocks: Vec<Block>, client: KeyPair) -> World {
    let mut j: serde_json::Value = serde_json::from_slice(&std::fs::read("./config_default.json").unwrap()).unwrap();
    j["server"]["port"] = serde_json::json!(port);
    j["server"]["endpoint"]["port"] = serde_json::json!(port);
    let path = format!("./config_{port}.json");
    std::fs::write(&path, serde_json::to_vec(&j).unwrap()).unwrap();
    let cfg = ConfigHandler::load_configs(path.clone()).expect("load config");
    let _ = std::fs::remove_file(&path);
    let configs_lock: Arc<RwLock<dyn Configuration + Send + Sync>> = Arc::new(RwLock::new(cfg));
    let node = key(9);
    let wallet = Arc::new(RwLock::new(Wallet::new(node.1, node.0)));
    let blockchain_lock = Arc::new(RwLock::new(Blockchain::new(wallet, 100, 0, 60)));
    let peers: Arc<RwLock<PeerCollection>> = Arc::new(RwLock::new(PeerCollection::default()));
    {
        let mut p = peers.write().await;
        let mut peer = Peer::new(1);
        peer.peer_status = PeerStatus::Connected;
        peer.public_key = Some(client.0);
        p.address_to_peers.insert(client.0, 1);
        p.index_to_peers.insert(1, peer);
    }
    let (s_net, r_net) = tokio::sync::mpsc::channel::<IoEvent>(1000);
    let (s_core, r_core) = tokio::sync::mpsc::channel::<IoEvent>(1000);
    let (s_stat, mut r_stat) = tokio::sync::mpsc::channel::<String>(10_000);
    let (s_net2, r_net2) = tokio::sync::mpsc::channel::<IoEvent>(1000);
    tokio::spawn(async move { while r_stat.recv().await.is_some() {} });
    let timer = Timer { time_reader: Arc::new(TimeKeeper {}), hasten_multiplier: 1, start_time: 0 };
    let _handles = saito_rust::network_controller::run_network_controller(r_net, s_core, configs_lock, blockchain_lock, s_stat, peers.clone(), s_net2, &timer).await;
    // keep the channel ends alive for the lifetime of the process
    std::mem::forget(s_net);
    std::mem::forget(r_core);
    std::mem::forget(r_net2);
    for _ in 0..200 {
        if tokio::net::TcpStream::connect(("127.0.0.1", port)).await.is_ok() {
            break;
        }
        tokio::time::sleep(std::time::Duration::from_millis(10)).await;
    }
    World { port, blocks, peers, client }
}

fn main() {
    let args: Vec<String> = std::env::args().collect();
    let dir = args.get(1).cloned().unwrap_or_else(|| "/tmp/vroute".into());
    let seed: u64 = args.get(2).and_then(|x| x.parse().ok()).unwrap_or(1);
    let cases: u32 = args.get(3).and_then(|x| x.parse().ok()).unwrap_or(50);
    std::fs::create_dir_all(format!("{dir}/data/blocks")).expect("scratch dir");
    std::env::set_current_dir(&dir).expect("chdir");
    let port: u16 = 13000 + (std::process::id() % 2000) as u16;

    let rt = tokio::runtime::Builder::new_multi_thread().worker_threads(2).enable_all().build().unwrap();
    let blocks = build_blocks();
    for b in &blocks {
        std::fs::write(format!("./data/blocks/{}", b.get_file_name()), b.serialize_for_net(BlockType::Full)).expect("write block");
    }
    let client = key(1);
    NodeConfigurations::default().write_to_file("./config_default.json".to_string()).expect("config");


    // replay mode: vroute <dir> replay <file with a JSON list of ops>
    if args.get(2).map(|x| x.as_str()) == Some("replay") {
        let ops: Vec<Op> = serde_json::from_slice(&std::fs::read(args.get(3).expect("replay file")).expect("read replay")).expect("ops");
        let (v, req, _) = rt.block_on(async {
            let world = start_world(port, blocks.clone(), client).await;
            run_case(&world, &ops).await
        });
        let unavailable = v.iter().any(|x| x.0 == "UNAVAILABLE");
        let violations: Vec<_> = v.iter().filter(|x| x.0 != "UNAVAILABLE").map(|(k, w)| serde_json::json!({"key": k, "what": w, "case": ops})).collect();
        println!("{}", serde_json::json!({"cases": 1, "requests": req, "nontrivial": 0, "violations": violations, "unavailable": unavailable}));
        std::process::exit(0);
    }
    let mut cfg = Config::default();
    cfg.cases = cases;
    cfg.failure_persistence = None;
    cfg.max_shrink_iters = 200;
    let mut s = [0u8; 32];
    s[..8].copy_from_slice(&seed.wrapping_mul(0x9E37_79B9_7F4A_7C15).to_le_bytes());
    let rng = TestRng::from_seed(RngAlgorithm::ChaCha, &s);
    let _ = RngSeed::Random;
    let mut runner = TestRunner::new_with_rng(cfg, rng);
    let total_requests = std::cell::Cell::new(0usize);
    let nontrivial = std::cell::Cell::new(0usize);
    let done = std::cell::Cell::new(0usize);
    let failing = std::cell::Cell::new(false);
    let next_port = std::cell::Cell::new(port);
    let result = runner.run(&arb_ops(), |ops| {
        let p = next_port.get();
        next_port.set(if p >= 64_000 { 13_000 } else { p + 1 });
        let (v, req, nt) = rt.block_on(async {
            let world = start_world(p, blocks.clone(), client).await;
            run_case(&world, &ops).await
        });
        if !failing.get() {
            done.set(done.get() + 1);
            total_requests.set(total_requests.get() + req);
            if nt {
                nontrivial.set(nontrivial.get() + 1);
            }
        }
        if let Some((k, what)) = v.into_iter().next() {
            failing.set(true);
            return Err(TestCaseError::fail(format!("{k} :: {what}")));
        }
        Ok(())
    });
    let mut violations = vec![];
    let mut unavailable = false;
    if let Err(TestError::Fail(reason, value)) = result {
        let r = reason.message().to_string();
        let (k, what) = r.split_once(" :: ").map(|(a, b)| (a.to_string(), b.to_string())).unwrap_or((r.clone(), r.clone()));
        if k == "UNAVAILABLE" {
            // no loopback networking / the listener never came up: not a verdict about the code
            unavailable = true;
        } else {
            violations.push(serde_json::json!({"key": k, "what": what, "case": value}));
        }
    }
    println!(
        "{}",
        serde_json::json!({"cases": done.get(), "requests": total_requests.get(), "nontrivial": nontrivial.get(), "violations": violations, "port": port, "unavailable": unavailable})
    );
    std::process::exit(0);
}
