#!/bin/bash
# tools/with_patch.sh <patch.diff | revert:<commit>> <ID> [ID...]
# Applies a change to /repo's working tree, runs the quick checks (no evidence written), restores.
P="$1"; shift
cd /repo || exit 2
if [ -n "$(git status --porcelain --untracked-files=no)" ]; then echo "/repo working tree not clean"; exit 2; fi
if [[ "$P" == revert:* ]]; then
  git revert --no-commit "${P#revert:}" >/dev/null 2>&1 || { echo "revert failed"; git revert --abort 2>/dev/null; git checkout -- . ; exit 2; }
  git reset -q
else
  git apply "$P" || { echo "patch does not apply"; exit 2; }
fi
cd /verif
for ID in "$@"; do
  OUT=$(VERIF_NO_EVIDENCE=1 ./run_check.sh "$ID" quick 2>&1)
  RC=$?
  echo "== $ID rc=$RC"
  echo "$OUT" | grep -E "VIOLATION|key=|BUILD-FAILED|WATCHDOG|^C[0-9]+ quick" | cut -c1-220 | head -12
  rm -f /verif/replays/$ID/viol_*.json
done
cd /repo && git checkout -- . && git clean -fdq -- saito-core saito-rust saito-wasm saito-spammer 2>/dev/null
git status --porcelain --untracked-files=no | head -3
