#!/bin/bash
# tools/seeded_matrix.sh : applies every seeded change to /repo's working tree in turn, runs the quick
# check of the property it was written against, and records whether the check reports it.
cd /verif || exit 2
OUT=/verif/seeded/RESULTS.md
echo "| seeded change | own-property check | exit | first reported key |" > $OUT
echo "|---|---|---|---|" >> $OUT
for D in $(ls -d seeded/C* | sort); do
  S=$(basename $D); ID=${S%%-*}
  [ -f $D/patch.diff ] || continue
  R=$(tools/with_patch.sh /verif/$D/patch.diff $ID 2>&1)
  RC=$(echo "$R" | grep -oE "rc=[0-9]+" | head -1)
  KEY=$(echo "$R" | grep -E "^  key=" | head -1 | sed 's/ :: .*//' | cut -c7-150)
  echo "| $S | $ID | ${RC#rc=} | \`$KEY\` |" >> $OUT
  echo "$S $RC $KEY"
done
