#!/usr/bin/env python3
"""Regenerates /verif/MANIFEST.json from the table below (kept valid at all times)."""
import json, os, sys
HERE = os.path.dirname(os.path.dirname(os.path.abspath(__file__)))

# id -> (level, technique, text, note, design_ref)
CHECKS = {
 "C09": ("exploration",
         "property-based round-trip testing (proptest): decode(encode(v))==v, encode(decode(b))==b, size prediction, identity (hash/signature/validity verdict via twin nodes) over generated values of every format",
         "Generated values of every wire/disk format (all enum variants, boundary integers, 0..255 slips, payloads to 72 kB, every Message tag, real signed blocks from generated honest histories) are pushed through encode/decode both ways and through twin nodes; any asymmetric encoder/decoder edit (field order, width, truncation) changes at least one generated value's round trip.",
         "Equality is on serialized (consensus) fields; derived caches are excluded. Service strings exclude the separators '|' and ';' (implicit precondition of the format).",
         "DESIGN.md §3 C09"),
 "C10": ("exploration",
         "exhaustive truncation + boundary-value field corruption + random/mutational fuzzing of every peer/disk decoder with an in-process panic and peak-allocation oracle (thorough tier adds libFuzzer campaigns)",
         "Every decoder fed by peers or disk is run on all truncations of valid encodings, on every 4-byte window of the leading 200 bytes (and embedded transaction headers) overwritten with boundary values, on every value of each leading byte, on random strings and on random mutations; a panic (caught, keyed by decoder and panic site) or an allocation above 64*len+64KiB is a violation. Totality failures are triggered by specific lengths/counts, which is exactly what systematic truncation and count corruption enumerate.",
         "The golden-ticket payload decoder is exercised as it is reachable: through the transaction decoder for GoldenTicket-typed transactions. ApiMessage is exercised through Message (its only caller). Allocation is measured by a process-wide counting allocator in a single-threaded run.",
         "DESIGN.md §3 C10"),
 "C03": ("exploration",
         "model-based testing against an independent UTXO replay: exhaustive enumeration of small block trees x golden-ticket masks x all delivery permutations, plus proptest-generated trees/orders/duplicates/invalid blocks with shrinking",
         "After every single delivery the node's by-height index, per-block on-chain flags, reported tip and utxoset are compared with an independently written replay (BTreeMap ledger) of the ancestor path of the reported tip. Small trees are enumerated completely in every delivery order, so arrival-order-specific bookkeeping bugs in that sub-space cannot hide; random trees (to 16 blocks, conflicting spends on sibling branches, invalid blocks, duplicates, orphans) reach repeated back-and-forth reorganisations.",
         "Blocks are built by honest producers following each branch (the repository's Block::create). Entries older than the 2*genesis_period purge horizon are not compared. Histories on which add_block panics, diverges or leaves a trace after a rejection are attributed to C04. Open known finding F10 (orphan path with initial_loading_completed=false) is keyed by cause.",
         "DESIGN.md §3 C03"),
 "C04": ("fault_enumeration",
         "systematic fault enumeration over (fork shape, offending position, kind of invalidity, chain content) with a full before/after state snapshot oracle and a deterministic step-count bound (hook H1)",
         "Every combination of main-chain length, fork depth, position of the invalid block in the candidate chain (first/middle/last) and 16 kinds of invalidity is built with real signed blocks and delivered; any delivery that is not accepted must leave tip, utxoset, chain index, stored blocks and wallet bit-identical, the wind/unwind loop must finish within 2(|old|+|new|)+2 iterations (counted by the cfg-guarded hook), and the tip must never move onto a chain containing the invalid block.",
         "Children of the invalid block are produced by a harness-side builder that treats the invalid block as accepted; the step counter is hook H1 (cfg saito_verif), which also turns a livelock into a verdict instead of a hang.",
         "DESIGN.md §3 C04"),
}
NOT_YET = {}

def main():
    props = [json.loads(l) for l in open(os.path.join(HERE, "properties.jsonl"))]
    checks = []
    na = []
    for p in props:
        pid = p["id"]
        if pid in CHECKS:
            lvl, tech, text, note, ref = CHECKS[pid]
            checks.append({
                "property_id": pid,
                "quick_cmd": f"./run_check.sh {pid} quick",
                "thorough_cmd": f"./run_check.sh {pid} thorough",
                "evidence_file": f"/verif/evidence/{pid}.json",
                "replay_cmd_template": f"./run_check.sh {pid} replay {{path}}",
                "engine": "vcheck",
                "level_claimed": {"category": lvl, "text": text, "design_ref": ref},
                "level_note": note,
                "technique": tech,
            })
        else:
            na.append({"property_id": pid, "reason": NOT_YET.get(pid, "check not built yet in this session (planned: see DESIGN.md §3); not claimed until its check runs clean on the unchanged tree")})
    m = {
        "version": 1,
        "setup_cmd": "cd /verif/harness && CARGO_NET_OFFLINE=true cargo build --release",
        "hooks": {
            "guard": "--cfg saito_verif",
            "enable": "harness/.cargo/config.toml sets rustflags = [\"--cfg\", \"saito_verif\"]; the harness depends on /repo/saito-core by path, so every check rebuilds the current working tree with the guard on",
            "baseline_off_cmd": "cd /repo && cargo nextest run --workspace --no-fail-fast --test-threads 8 --offline || cargo test --workspace --no-fail-fast --offline",
            "source_commits": HOOK_COMMITS,
            "add_only": True,
        },
        "engines": [
            {"name": "vcheck", "path": "/verif/harness", "serves_properties": sorted(CHECKS.keys()),
             "kind_free_text": "proptest 1.11 driven from a binary (fixed seed, no persistence, shrinking to a JSON replay) plus exhaustive enumeration of small sub-spaces; real saito-core code linked by path"},
        ],
        "checks": checks,
        "not_applicable": na,
        "notes": "Known genuine defects that are recorded rather than repaired are in /verif/known_findings.json; checks print KNOWN-FINDING lines for them and exit 0.",
    }
    json.dump(m, open(os.path.join(HERE, "MANIFEST.json"), "w"), indent=1)
    print("MANIFEST.json:", len(checks), "checks,", len(na), "not_applicable")

HOOK_COMMITS = ["6dbdc32"]
if __name__ == "__main__":
    main()
