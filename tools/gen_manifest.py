#!/usr/bin/env python3
"""Regenerates /verif/MANIFEST.json from the table below (kept valid at all times)."""
import json, os, sys
HERE = os.path.dirname(os.path.dirname(os.path.abspath(__file__)))

# id -> (level, technique, text, note, design_ref)
CHECKS = {
 "C09": ("exploration",
         "property-based round-trip testing (proptest): decode(encode(v))==v, encode(decode(b))==b, size prediction, identity (hash/signature/validity verdict via twin nodes) over generated values of every format",
         "Generated values of every wire/disk format (all enum variants, boundary integers, 0..255 slips, payloads to 72 kB, every Message tag, real signed blocks from generated honest histories) are pushed through encode/decode both ways and through twin nodes; any asymmetric encoder/decoder edit (field order, width, truncation) changes at least one generated value's round trip.",
         "Equality is on serialized (consensus) fields; derived caches are excluded. Service strings exclude the separators '|' and ';' (implicit precondition of the format).",
         "DESIGN.md §3 C09"),
 "C10": ("exploration",
         "exhaustive truncation + boundary-value field corruption + random/mutational fuzzing of every peer/disk decoder with an in-process panic and peak-allocation oracle (thorough tier adds libFuzzer campaigns)",
         "Every decoder fed by peers or disk is run on all truncations of valid encodings, on every 4-byte window of the leading 200 bytes (and embedded transaction headers) overwritten with boundary values, on every value of each leading byte, on random strings and on random mutations; a panic (caught, keyed by decoder and panic site) or an allocation above 64*len+64KiB is a violation. Totality failures are triggered by specific lengths/counts, which is exactly what systematic truncation and count corruption enumerate.",
         "The golden-ticket payload decoder is exercised as it is reachable: through the transaction decoder for GoldenTicket-typed transactions. ApiMessage is exercised through Message (its only caller). Allocation is measured by a process-wide counting allocator in a single-threaded run.",
         "DESIGN.md §3 C10"),
}
NOT_YET = {}

def main():
    props = [json.loads(l) for l in open(os.path.join(HERE, "properties.jsonl"))]
    checks = []
    na = []
    for p in props:
        pid = p["id"]
        if pid in CHECKS:
            lvl, tech, text, note, ref = CHECKS[pid]
            checks.append({
                "property_id": pid,
                "quick_cmd": f"./run_check.sh {pid} quick",
                "thorough_cmd": f"./run_check.sh {pid} thorough",
                "evidence_file": f"/verif/evidence/{pid}.json",
                "replay_cmd_template": f"./run_check.sh {pid} replay {{path}}",
                "engine": "vcheck",
                "level_claimed": {"category": lvl, "text": text, "design_ref": ref},
                "level_note": note,
                "technique": tech,
            })
        else:
            na.append({"property_id": pid, "reason": NOT_YET.get(pid, "check not built yet in this session (planned: see DESIGN.md §3); not claimed until its check runs clean on the unchanged tree")})
    m = {
        "version": 1,
        "setup_cmd": "cd /verif/harness && CARGO_NET_OFFLINE=true cargo build --release",
        "hooks": {
            "guard": "--cfg saito_verif",
            "enable": "harness/.cargo/config.toml sets rustflags = [\"--cfg\", \"saito_verif\"]; the harness depends on /repo/saito-core by path, so every check rebuilds the current working tree with the guard on",
            "baseline_off_cmd": "cd /repo && cargo nextest run --workspace --no-fail-fast --test-threads 8 --offline || cargo test --workspace --no-fail-fast --offline",
            "source_commits": HOOK_COMMITS,
            "add_only": True,
        },
        "engines": [
            {"name": "vcheck", "path": "/verif/harness", "serves_properties": sorted(CHECKS.keys()),
             "kind_free_text": "proptest 1.11 driven from a binary (fixed seed, no persistence, shrinking to a JSON replay) plus exhaustive enumeration of small sub-spaces; real saito-core code linked by path"},
        ],
        "checks": checks,
        "not_applicable": na,
        "notes": "Known genuine defects that are recorded rather than repaired are in /verif/known_findings.json; checks print KNOWN-FINDING lines for them and exit 0.",
    }
    json.dump(m, open(os.path.join(HERE, "MANIFEST.json"), "w"), indent=1)
    print("MANIFEST.json:", len(checks), "checks,", len(na), "not_applicable")

HOOK_COMMITS = []
if __name__ == "__main__":
    main()
