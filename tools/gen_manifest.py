#!/usr/bin/env python3
"""Regenerates /verif/MANIFEST.json from the table below (kept valid at all times)."""
import json, os, sys
HERE = os.path.dirname(os.path.dirname(os.path.abspath(__file__)))

# id -> (level, technique, text, note, design_ref)
CHECKS = {
 "C09": ("exploration",
         "property-based round-trip testing (proptest): decode(encode(v))==v, encode(decode(b))==b, size prediction, identity (hash/signature/validity verdict via twin nodes) over generated values of every format",
         "Generated values of every wire/disk format (all enum variants, boundary integers, 0..255 slips, payloads to 72 kB, every Message tag, real signed blocks from generated honest histories) are pushed through encode/decode both ways and through twin nodes; every real block is also written to its file, pruned and restored with Block::upgrade_block_to_block_type and must come back equal (bytes, hash, utxoset keys and fee/work figures of every transaction) and acceptable to a twin node as it is; any asymmetric encoder/decoder edit (field order, width, truncation) changes at least one generated value's round trip.",
         "Equality is on serialized (consensus) fields; derived caches are excluded. Service strings exclude the separators '|' and ';' (implicit precondition of the format).",
         "DESIGN.md §3 C09"),
 "C10": ("exploration",
         "exhaustive truncation + boundary-value field corruption + random/mutational fuzzing of every peer/disk decoder with an in-process panic and peak-allocation oracle (thorough tier adds libFuzzer campaigns)",
         "Every decoder fed by peers or disk is run on all truncations of valid encodings, on every 4-byte window of the leading 200 bytes (and embedded transaction headers) overwritten with boundary values, on every value of each leading byte, on every 32/33/64-byte window of the leading 160 bytes filled with all-zero / all-0xff / the secp256k1 group order and its neighbours (values a curve library refuses), on uniform buffers at record lengths, on random strings and on random mutations; a panic (caught, keyed by decoder and panic site) or an allocation above 64*len+64KiB is a violation. Totality failures are triggered by specific lengths/counts, which is exactly what systematic truncation and count corruption enumerate.",
         "The golden-ticket payload decoder is exercised as it is reachable: through the transaction decoder for GoldenTicket-typed transactions. ApiMessage is exercised through Message (its only caller). Allocation is measured by a process-wide counting allocator in a single-threaded run.",
         "DESIGN.md §3 C10"),
 "C03": ("exploration",
         "model-based testing against an independent UTXO replay: exhaustive enumeration of small block trees x golden-ticket masks x all delivery permutations, plus proptest-generated trees/orders/duplicates/invalid blocks with shrinking",
         "After every single delivery the node's by-height index, per-block on-chain flags, reported tip and utxoset are compared with an independently written replay (BTreeMap ledger) of the ancestor path of the reported tip. Small trees are enumerated completely in every delivery order, so arrival-order-specific bookkeeping bugs in that sub-space cannot hide; random trees (to 16 blocks, conflicting spends on sibling branches, invalid blocks, duplicates, orphans) reach repeated back-and-forth reorganisations.",
         "Blocks are built by honest producers following each branch (the repository's Block::create). Utxoset and replay are compared from block tip-gp upwards (spendable window plus the block the next rebroadcast reads); index and flags above the 2*genesis_period purge horizon. Histories on which add_block panics or diverges are attributed to C04; a rejected delivery that leaves a trace is judged here too (is the state left behind still one chain?). Open known finding F10 (out-of-order branch of add_block) is keyed by what it needs: a parentless block at or below the tip's height or a branch with a purged fork point; histories with early blocks above the tip are judged normally.",
         "DESIGN.md §3 C03"),
 "C04": ("fault_enumeration",
         "systematic fault enumeration over (fork shape, offending position, kind of invalidity, chain content) with a full before/after state snapshot oracle and a deterministic step-count bound (hook H1)",
         "Every combination of main-chain length (also past the window wrap with genesis period 4 and 5; also the early-block shape: a block delivered before its parent, then an invalid block on top of it), fork depth, position of the invalid block in the candidate chain (first/middle/last) and 20 kinds of invalidity (9 header lies, 4 payout lies, 7 invalid-transaction edits) is built with real signed blocks and delivered; any delivery that is not accepted must leave tip, utxoset, chain index, stored blocks and wallet bit-identical, the wind/unwind loop must finish within 2(|old|+|new|)+2 iterations (counted by the cfg-guarded hook), and the tip must never move onto a chain containing the invalid block.",
         "Children of the invalid block are produced by a harness-side builder that treats the invalid block as accepted; the step counter is hook H1 (cfg saito_verif), which also turns a livelock into a verdict instead of a hang.",
         "DESIGN.md §3 C04"),
 "C01": ("exploration",
         "property-based adversarial testing: generated chain states x an edit catalogue of 27 invalid-transaction constructions (incl. privileged types without inputs, ATR-typed thefts, BlockStake-typed spends of an expired and of a spent output, two valid spends of one output in one received block), judged by an independent reference ledger, offered to both pool entry points and (inside attacker-built blocks) to block validation",
         "Honest forked histories (fees, golden tickets, rebroadcasts; gp 4..100) put a victim node into one of the state classes fresh / after reorg / after window wrap; every catalogue edit is built from the victim's real ledger, confirmed invalid by the independent reference ledger, and must be refused by Mempool::add_transaction_if_validates, by VerificationThread::verify_tx and by add_block of an attacker-built block with 0..3 honest fillers; an honest spend must be admitted. A validator that stops gating on any one rule (signature, ownership, existence, window, double spend, overspend, type privileges) accepts at least one catalogue entry.",
         "Staking (social_stake>0) state class is not generated. Adversary cannot forge signatures. The attacker's block is produced with the repository's Block::create, so its header is consistent with the invalid content.",
         "DESIGN.md §3 C01"),
 "C02": ("exploration",
         "invariant checking over generated histories: supply recomputed in u128 from the node's own utxoset and tip header after every accepted block; per-transaction conservation in u128",
         "After every block accepted onto the longest chain of generated honest histories (forks/reorgs, several window wraps, fees, payouts, rebroadcast with and without treasury payout multiplier and 5% cap, amounts 1..2^58) the sum of spendable in-window outputs + treasury + graveyard + unpaid + fees must equal the genesis issuance in unbounded arithmetic, and the node's own (wrapping) supply check must not abort it. Overflow-based minting by adversarial transactions is covered by C01's Overspend/OverspendWrap edits.",
         "Supply is recomputed from the implementation's utxoset (not from the reference ledger) so that utxoset bugs show up as supply changes. Every eighth position of a history is a two-block side chain whose second block spends a spent / non-existent / expired output or carries two valid spends of one (rebroadcast, if any) output (a reorganisation that fails part-way). Histories with a fork point more than one genesis period below the tip or a candidate segment longer than two genesis periods are filed under open finding F42. Finding F11 (u64 overflow of amount x payout multiplier) was repaired; its key stays available through an independent overflow predicate.",
         "DESIGN.md §3 C02"),
 "C05": ("exploration",
         "model-based testing against a reference fork-choice function: exhaustive small trees x ticket masks x timestamp profiles x all delivery orders, plus generated trees/orders with shrinking",
         "Every tip movement must satisfy the reference rule (strictly longer, cumulative burn fee over the diverging segment >=, valid by construction, >= 2 golden tickets in every six-block window) and every delivery completing such a chain must be adopted; tip height is monotone; an orphan changes neither tip nor index. Equal-length, longer-but-lighter and ticket-poor-inside side chains are generated on purpose.",
         "The 'must adopt' direction is asserted only for chains that also satisfy the implementation's extra start-up rule (one ticket in the first five blocks); other cases are counted as unasserted. Deliveries of a parentless block at or below the tip's height (initial_loading_completed=false) or on a branch with a purged fork point are known finding F10b; a block that merely arrives early (above the tip) must be neutral and the history is judged on.",
         "DESIGN.md §3 C05"),
 "C06": ("exploration",
         "property-based mutation of valid blocks (21 edit kinds on transaction list incl. truncation down to the header-only form, single transaction fields incl. txs_replacements, input coordinates and routing path, signed/unsigned header fields, merkle root, signature, creator) across the wire format, offered to replica nodes in four states (whole chain, joined mid-chain, empty node + genesis block, stored as side-branch block and wound when an honest child arrives); oracle from the statement",
         "For valid blocks at the tip of generated histories every edit of the transaction list or of a signed header field that is not re-signed by the stated creator must be refused; a block accepted under the original hash must carry the original ordered transaction list; a block re-signed by another key must have another hash; the unedited round-tripped block must be accepted.",
         "Edits of header fields outside the signature are classified, not asserted (the statement does not cover them). Open finding F40 (input coordinates and routing path are outside the transaction hash) is keyed by cause: accepted, same hash, same transaction hashes, different transactions. Edits that decode to a field-for-field identical block (zeroed merkle root recomputed from unchanged transactions) are discarded as no-ops.",
         "DESIGN.md §3 C06"),
 "C07": ("exploration",
         "differential property-based testing: generated production histories driven through the node's own pool entry and producer; every produced block is validated by the producer and by an independent second node (over the wire format), states compared",
         "From genesis the node produces up to 25 blocks in a row through Mempool::add_transaction_if_validates / add_golden_ticket / bundle_block with generated pool content (payers, fees, routing paths ending at the producer), golden-ticket availability, timestamp offsets (1 ms..20 s), genesis period 4..100 (several window wraps), heartbeat 100/5000, staking on/off, genesis treasury (payout multiplier, 5% cap), amounts and fees up to ~2^60, and a late start (the first gp-1..gp+1 blocks by another producer, the node's first own block at the window edge). Producer and validator must agree on every produced block and end in identical tip/utxoset on two independent nodes.",
         "The producer is driven through Mempool::bundle_block exactly as ConsensusThread::produce_block does (golden ticket taken from the pool's ticket map); the timer-driven wrapper ConsensusThread::bundle_block is exercised in the net-world checks. Pool transactions of the producer's own key are not generated when staking is on (they would compete with the wallet's stake selection, a C14 matter).",
         "DESIGN.md §3 C07"),
 "C08": ("exploration",
         "property-based testing in three parts: algebraic laws of the work function over the full u64/timestamp domain; boundary-value generation around the work requirement with an independently recomputed work oracle; payout eligibility/bound invariants over accepted blocks of generated histories",
         "(a) 1e5 (quick) random points of the floating-point work function, including powers of two and extreme timestamps, checked for monotone non-increase in elapsed time and for reaching zero after two heartbeats; (b) blocks built outside the producer's gate one millisecond before, exactly at and after the moment the independently computed routing work meets the requirement, with valid, path-less, mis-addressed, forged and gapped routing paths, each candidate delivered to a node holding the whole chain and in half of the cases also to a node that joined mid-chain (which validates without its utxoset) - both must reach the oracle's verdict; (c) every fee transaction on the longest chain of generated forked histories pays only the ticket solver and keys on routing paths of the blocks being paid, never more than those blocks collected; the next block on the tip is then offered with its fee transaction extended / shortened / redirected / inflated by a re-signing producer and every variant must be refused.",
         "The requirement curve itself (needed as a function of burn fee and time) is taken from the implementation; only its laws are checked. Senders of path-less fee-paying transactions count as eligible (documented in get_winning_routing_node).",
         "DESIGN.md §3 C08"),
 "C13": ("exploration",
         "model-based checking of every window-edge block of generated long histories against an independent reference ledger, plus adversarial spend probes of expired outputs",
         "For every block that enters the longest chain beyond height gp+1 (generated histories with several window wraps, dust, fees, treasury payout multiplier and cap, forks across the edge; forged-rebroadcast probes: a block with an ATR-typed transaction consuming an output that has not left the window must be refused) the set U of still-unspent outputs of the expiring block is taken from the independent replay; rebroadcast transactions must map one-to-one into U, keep the owner, carry value+payout-fee, the payouts must equal the treasury debit, and rebroadcast fees plus the value of non-rebroadcast members of U must equal total_fees_atr; real signed spends of expired outputs are then offered to the pool and must be refused.",
         "NFT groups are minted (one generated transaction in ten) and rebroadcast, also a second time; a group's payload must come back together with its bound slips. NFT transfers are not generated. 'No longer spendable' is judged operationally (a signed spend is refused), not by absence from the utxoset map.",
         "DESIGN.md §3 C13"),
 "C14": ("exploration",
         "stateful model-based testing: generated operation sequences (vec of ops + interpreter, shrinking as one value) over pool, producer, peer blocks and reorganisations, invariants after every step and a terminal spendability probe, judged by the independent reference ledger",
         "Sequences of up to 30 pool operations (fresh/conflicting/duplicate/invalid/shaped submissions, staking transactions of other keys, local bundling, peer blocks confirming pooled transactions, peer blocks spending one input of a multi-input pooled transaction, rejected blocks, reorganising side chains) are interpreted against one node; after each step the pool must be conflict-free, every pooled transaction valid on the current ledger, the cached routing work exact, bundling all-or-nothing; at the end every spendable output not referenced by the pool must be spendable through the pool.",
         "Staking is off (the wallet's stake selection is not in scope here). Pool admission of catalogue edits is C01's subject; here only consistency is asserted.",
         "DESIGN.md §3 C14"),
 "C19": ("exploration",
         "stateful model-based testing of the wallet against the independent reference ledger: generated sequences of payments, wallet-built spends (one and two payments, amounts up to 2^64), staking transactions, inclusion/omission, empty-block runs and unwinding side chains; invariants after every step",
         "After each of up to 30 generated operations the wallet's balance must equal the sum of its unspent slips, unspent must be a subset of slips, and - while no reorganisation has happened - the unspent set must equal the reference ledger's spendable in-window outputs of the wallet key minus inputs committed to pending built transactions; every transaction built by Transaction::create must have no repeated input, outputs <= inputs and be valid per the reference ledger on the ledger it was built on (also after reorganisations).",
         "NFT groups are not generated; staking transactions are built in a third of the cases (stake requirement 0, stake period 1-3). Exact set equality is only asserted on reorg-free histories, as the statement says.",
         "DESIGN.md §3 C19"),
 "C18": ("exploration",
         "exhaustive enumeration of all 2^n touch patterns (n <= 8 quick, <= 11 thorough) plus property-based random blocks/key lists; projection and commitment-recomputation oracles, in memory and across the wire format; plus generated request / key-list-update sequences against the real HTTP route of saito-rust",
         "For every pattern of which transactions of a block touch the client's key list, the lite block must keep id/hash/signature/header, contain every touching transaction unchanged and in order, account for every omitted one, allow the header's merkle root to be recomputed from its transactions (a panic of that recomputation is a violation), and keep all of that after serialisation. Placeholder merging depends on the position pattern, which is enumerated completely for small n.",
         "Open known finding F27: whenever two adjacent omitted transactions are merged the commitment is not recomputable (keyed by merged/unmerged so that a regression of the unmerged case is still reported). The HTTP route in saito-rust that serves lite blocks is driven over loopback HTTP by the separate binary /verif/route (real warp server, fresh per generated sequence of requests and key-list updates; differential against the direct projection); if the listener cannot be reached that part is recorded as not run.",
         "DESIGN.md §3 C18"),
 "C16": ("exploration",
         "stateful model-based testing through the routing layer with an I/O-boundary monitor: exhaustive operation sequences to depth 4 (quick) / 5 (thorough) over a small universe plus proptest-generated sequences to length 60, each run to quiescence; random sequences also complete fetches in any order and contain peer-less parent requests from the consensus thread",
         "The scheduler is only driven by what the node really receives (header-hash announcements from authenticated peers, timer ticks, fetched blocks, fetch failures, blocks arriving by another route) and only observed where its decisions leave the node (fetch_block_from_peer). A harness-side model of the fetches in flight checks the per-peer bound, height order and no-skip within each selection round, no double request, completeness at quiescence and the retry bound (1800 rounds with an always-failing block that the peer announces again at generated rounds, optionally announced by a second peer too; 502 requests per peer).",
         "Ordering is asserted among never-failed entries (a failed entry re-enters one round later by design). Open known findings F28/F28b (the scheduler forgets outstanding fetches when the block arrives from elsewhere) are keyed by root cause: an excess or double request that is not explained by such a forgotten fetch is still a violation.",
         "DESIGN.md §3 C16"),
 "C17": ("exploration",
         "property-based protocol testing with an active attacker model: generated interleavings (4..14 ops) of honest handshake traffic and attacker actions (drop, reorder, replay, redirect, reflect, own-key responses over right/foreign/self-chosen challenges, signing-oracle challenges) against two real routing threads; authentication monitor derived from observed challenges",
         "Every transition of a connection to Connected under key K (status change or handshake-complete interface event) must coincide with the delivery, on that connection, of a response whose signature verifies for K over a challenge that this node issued on this connection and had not accepted before, and K must not be the node's own key (a reflected signature is not the remote side's); deliveries that complete nothing must leave every other authenticated connection and the key->connection index untouched. The undisturbed handshake must complete on both sides.",
         "Attacker cannot forge signatures; a live relay of the very challenge is counted, not flagged (it satisfies the statement's letter). Connection indices are fixed by the harness; rate limiters are not exhausted in these short sequences.",
         "DESIGN.md §3 C17"),
 "C15": ("exploration",
         "(a) property-based testing of the ancestor estimate on synthetic block rings with collision-free fingerprints; (b) deterministic-scheduler exploration of two real nodes (routing/verification/consensus threads): enumerated chain triples in order plus proptest-generated triples and schedules (message, fetch-completion and internal-event interleavings), optionally a second round after a reconnect with both sides grown, convergence oracle at quiescence; (c) a lite (SPV) node syncing through the ghost chain: enumerated payment masks and generated chains, hash-fidelity oracle",
         "(a) for 3e3 (quick) chain pairs up to 2e5 blocks, below and above every fork-id checkpoint, the estimate computed from the peer's fork id must not exceed the true fork height; (b) for every (prefix, own suffix, peer suffix) up to 4/4/5 (quick) and generated ones up to 12/6/14 under generated schedules with up to four pending fetches completed in any order, the syncing node must end on the peer's tip, the peer must stay put, and every lacking block must have been requested; (c) after handshake, ghost-chain request and ghost chain every block of the peer's chain must be indexed by the lite node under the peer's real hash or requested by exactly (hash, id).",
         "Per-direction message order on a connection is preserved (as a websocket does); the by-design 2^-16 checkpoint fingerprint collision is excluded from (a) by construction of the synthetic hashes. Out-of-order fetch completion with initial_loading_completed=false is known finding F10c (root cause F10).",
         "DESIGN.md §3 C15"),
 "C11": ("exploration",
         "property-based robustness testing of a whole node (real routing, verification, consensus, mining threads) under generated sequences of hostile and honest events, with a panic/step-bound oracle per handler invocation and a differential oracle against a twin node that only sees the honest sub-sequence",
         "Sequences of 3..40 events mix complete validly signed handshakes on new connections (under the hostile peer's already connected key or a fresh key), decodable messages of every tag from an authenticated and an unauthenticated hostile peer (generated by the C09 value generators), key-list floods, bogus block announcements answered with garbage/truncated/empty/mismatching/edited blocks, catalogue transactions, shaped transactions (correctly signed, any transaction type x 0..5 inputs x 0..5 outputs x any slip types, as messages and inside fetched blocks), hostile two-block forks (valid sibling of the tip + invalid child), raw garbage and connection events with honest transactions and blocks, timer ticks and channel pumping. Every handler invocation must return; block processing must stay under the step bound; after every event the tip, and at the end utxoset, honest pool content and honest peer status, must equal those of the honest-only twin.",
         "A handler that never returns outside the wind/unwind loop can only be caught by the harness watchdog (reported as inconclusive, exit 2); the per-event tip comparison catches the known way into such a loop (corrupted chain index) before it is entered. Rate limiters other than the key-list one are not exhausted by these sequence lengths.",
         "DESIGN.md §3 C11"),
 "C12": ("fault_enumeration",
         "crash-point enumeration over the journal of storage operations recorded by an in-memory InterfaceIO (prefix x {complete, absent, torn at 5 byte-class boundaries and at/inside the first three transaction boundaries}), each followed by a real restart through ConsensusThread::on_init and a differential/replay oracle; histories generated with proptest",
         "For generated histories with pruning, rebroadcast, reorganisations, stored-but-never-validated invalid side blocks and (in half of them) one block delivered before its ancestors the clean restart must reproduce tip and in-window spendable set; for every enumerated crash point the restarted node must come up without panicking on a tip whose file was completely on disk, with index/flags describing the tip's ancestors, the in-window spendable set equal to the independent replay of that chain, supply conserved when the whole window is held, and must accept a valid next block; after a second block it is shut down cleanly and restarted from its own files, and must not come back on an ancestor of that tip; the clean restart's own journal (it stores every loaded block again) is enumerated with torn writes followed by a second restart; every ancestor of a restarted tip above the purge horizon must be held by the node.",
         "The tearing model (prefix of the new content under the final name; removal atomic) is an assumption taken from RustIOHandler::write_value; the native handler is not executed. Quick tier strides over journal prefixes outside reorganisation/pruning steps; thorough tier takes every prefix. Histories avoid side chains whose fork point has been purged (known finding F10). Open findings F37 (unvalidated stored side block adopted at restart once the genesis block is purged) and F41 (a competing valid branch wins by file order) are keyed by cause.",
         "DESIGN.md §3 C12"),
 "C20": ("exploration",
         "lockdep-style invariant checking over observed acquisition histories: generated handler-event sequences are replayed once per probed lock and probing mode; the harness holds the lock, polls the real handler future once and reads the handler's held-set from outside with try_read/try_write (no source hook)",
         "For the canonical node life cycle and generated permutations of 23 kinds of steps covering every handler entry point of the routing, verification, consensus and mining threads (29 distinct handlers observed), every first contended acquisition of each of the five shared locks is recorded together with the set of locks the handler holds at that moment and checked against the documented rank order (config < blockchain < mempool < peers < wallet) with the outer-lock exemption; a handler that cannot progress after release is reported as re-entrancy hazard.",
         "Scope: handler entry points of saito-core only; saito-rust main/network_controller, saito-spammer and the saito-wasm entry points are not driven (they need sockets / a JS host) and are listed as undriven_sites in the evidence. Only the first acquisition of the probed lock that has to wait is observable per handler invocation and probing mode (a second acquisition of a lock the handler already took and released is not seen).",
         "DESIGN.md §3 C20"),
}
NOT_YET = {}

def main():
    props = [json.loads(l) for l in open(os.path.join(HERE, "properties.jsonl"))]
    checks = []
    na = []
    for p in props:
        pid = p["id"]
        if pid in CHECKS:
            lvl, tech, text, note, ref = CHECKS[pid]
            checks.append({
                "property_id": pid,
                "quick_cmd": f"./run_check.sh {pid} quick",
                "thorough_cmd": f"./run_check.sh {pid} thorough",
                "evidence_file": f"/verif/evidence/{pid}.json",
                "replay_cmd_template": f"./run_check.sh {pid} replay {{path}}",
                "engine": "vcheck",
                "level_claimed": {"category": lvl, "text": text, "design_ref": ref},
                "level_note": note,
                "technique": tech,
            })
        else:
            na.append({"property_id": pid, "reason": NOT_YET.get(pid, "check not built yet in this session (planned: see DESIGN.md §3); not claimed until its check runs clean on the unchanged tree")})
    m = {
        "version": 1,
        "setup_cmd": "cd /verif/harness && CARGO_NET_OFFLINE=true cargo build --release",
        "hooks": {
            "guard": "--cfg saito_verif",
            "enable": "harness/.cargo/config.toml sets rustflags = [\"--cfg\", \"saito_verif\"]; the harness depends on /repo/saito-core by path, so every check rebuilds the current working tree with the guard on",
            "baseline_off_cmd": "cd /repo && cargo nextest run --workspace --no-fail-fast --test-threads 8 --offline || cargo test --workspace --no-fail-fast --offline",
            "source_commits": HOOK_COMMITS,
            "add_only": True,
        },
        "engines": [
            {"name": "vcheck", "path": "/verif/harness", "serves_properties": sorted(CHECKS.keys()),
             "kind_free_text": "proptest 1.11 driven from a binary (fixed seed, no persistence, shrinking to a JSON replay) plus exhaustive enumeration of small sub-spaces; real saito-core code linked by path"},
        ],
        "checks": checks,
        "not_applicable": na,
        "notes": "Known genuine defects that are recorded rather than repaired are in /verif/known_findings.json; checks print KNOWN-FINDING lines for them and exit 0.",
    }
    json.dump(m, open(os.path.join(HERE, "MANIFEST.json"), "w"), indent=1)
    print("MANIFEST.json:", len(checks), "checks,", len(na), "not_applicable")

HOOK_COMMITS = ["6dbdc32", "f71f990"]
if __name__ == "__main__":
    main()
