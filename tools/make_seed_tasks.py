#!/usr/bin/env python3
"""tools/make_seed_tasks.py <round> <ID> [ID...]
Creates a scratch git worktree /tmp/wt<round>_<ID> of /repo's HEAD for each property and writes
_TASK.md into it: the property text, one-line descriptions of the earlier seeded changes for that
property (from seeded/*/meta.json 'change') and the requirements. Nothing else from /verif goes
into the worktree."""
import json, subprocess, sys, os, glob, re

rnd = sys.argv[1]
ids = sys.argv[2:]
props = {json.loads(l)['id']: json.loads(l) for l in open('/verif/properties.jsonl')}

TEMPLATE = """You are helping evaluate a verification effort by producing ONE realistic, subtle bug ("seeded change") in a Rust codebase. Work ONLY inside the scratch git worktree {wt} (a checkout of the SaitoTech/saito-rust-workspace repository: a Rust implementation of the Saito blockchain node; the consensus and networking code is in {wt}/saito-core/src/core). Do NOT read or write anything under /verif or /repo, and do not look for any verification harness - your work must be independent of it.

The semantic property your change must BREAK:

---
{title}

Statement: {statement}

Quantified over: {quant}
---

{prev}
Requirements for the change:
1. It is a modification of the library source (under saito-core/src, or saito-rust/src where the property speaks about it; not tests) that still COMPILES and still passes the existing test suite. Run the suite with: `cd {wt} && CARGO_NET_OFFLINE=true CARGO_TARGET_DIR={wt}/target cargo test -p saito-core --lib --offline -- --test-threads=4` (first build takes a couple of minutes; there is no network). IMPORTANT: some tests already fail or are flaky on the unmodified tree; the list of tests that must keep passing is the "stable_pass" array in /root/.vp/BASELINE.json (names like saito-core::core::consensus::block::tests::block_new_test). Run the suite once BEFORE your change to see the baseline, then after; every test in stable_pass that passed before must still pass (tests can interfere when run in parallel because they share ./data directories - re-run a failing one alone before concluding). If your change could affect the saito-rust or saito-wasm crates, also run `cargo test -p saito-rust -p saito-wasm --offline` with the same environment.
2. It must be REALISTIC and SUBTLE: the kind of mistake a developer could plausibly make in a refactor/optimisation (an off-by-one, a condition that is too weak in one branch, a check skipped on one code path, a cache/flag not updated on one path, two sites that each look fine alone, a changed order of two steps). It must need something specific to manifest - a particular multi-step sequence of operations, an unusual input, a particular chain or peer state, a particular schedule - NOT something that ordinary use would expose at once. Do not simply delete a whole validation function or make a validate() return true. The violation must be observable in a normal optimised (release) build, i.e. it must not depend on debug-only arithmetic overflow checks or debug assertions.
3. Provide a DEMONSTRATION: a Rust test (add it as a new #[cfg(test)] test in the worktree, e.g. in a new file or appended to an existing tests module; you may use the crate's test helpers such as core::util::test::test_manager::test::TestManager or core::util::test::node_tester) or a small program that FAILS with your change and PASSES without it, showing concretely that the property is violated. Verify both directions yourself (with the change: demo fails; without it: demo passes). Do not use `git stash` or create further worktrees (the git metadata is shared); to test without your change use `git diff > /tmp/x.diff && git apply -R /tmp/x.diff` style steps inside your worktree only.

Deliverables - create the directory {wt}/_seeded/ containing:
- patch.diff : `git diff` of the library source change ONLY (not the demo test), applicable with `git apply` to a clean checkout of this worktree's HEAD.
- demo.diff : a `git diff`-style patch that adds ONLY the demonstration test/program (applicable on top of the clean HEAD, with or without patch.diff). New files must be included (use `git add -N` before `git diff`).
- README.md : which file/function you changed and why it is plausible, what exactly is needed for the bug to manifest, the exact command to run the demonstration (including the test name filter), and the observed output with and without the change, plus confirmation that the stable test list still passes.

Finally make sure the worktree's tracked source is left either with both patches applied or clean - either is fine - but the three files above must exist. Report back a short summary (what you changed, how it manifests, the demo test name, commands you ran and their results).
"""

for pid in ids:
    p = props[pid]
    wt = f"/tmp/wt{rnd}_{pid}"
    if not os.path.isdir(wt):
        subprocess.run(["git", "-C", "/repo", "worktree", "add", "--detach", wt, "HEAD"], check=True, stdout=subprocess.DEVNULL, stderr=subprocess.DEVNULL)
    prev = []
    for d in sorted(glob.glob(f"/verif/seeded/{pid}*/meta.json")):
        m = json.load(open(d))
        if m.get("property") == pid:
            # drop remarks that refer to this evaluation (rounds, other seeds)
            prev.append(re.sub(r"\s*\([^()]*(round-|found independently|same mutation)[^()]*\)", "", m["change"]))
    if prev:
        n = len(prev)
        txt = f"{n} previous engineer(s) already produced seeded changes for the same property; yours must be DIFFERENT from all of them - in a different function and exercising a different clause, code path or mechanism of the property, not a variation of any:\n"
        txt += "".join(f'  {i+1}. "{c}"\n' for i, c in enumerate(prev))
        txt += "Look for parts of the statement and of its quantifier that none of them touches (other configurations, other entry points, other message/transaction/block types, other orders of events, boundary values, second and third steps after a first one).\n"
    else:
        txt = ""
    q = p.get("quantified_over") or {}
    quant = q.get("text") if isinstance(q, dict) else str(q)
    open(f"{wt}/_TASK.md", "w").write(TEMPLATE.format(wt=wt, title=p.get("title"), statement=p.get("statement"), quant=quant, prev=txt))
    print(wt)
