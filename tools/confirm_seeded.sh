#!/bin/bash
# tools/confirm_seeded.sh <wt> <demo-test-filter>
# Confirms in the scratch worktree: demo passes on clean HEAD, fails with patch.diff; lib suite with patch.
WT="$1"; FILT="$2"
cd "$WT" || exit 2
export CARGO_NET_OFFLINE=true CARGO_TARGET_DIR="$WT/target" RUST_BACKTRACE=0
git reset -q; git checkout -q -- . ; git clean -fdq -- saito-core saito-rust saito-wasm 2>/dev/null
git apply _seeded/demo.diff || { echo "demo.diff does not apply"; exit 2; }
echo "--- demo on clean HEAD"
cargo test -p saito-core --lib --offline "$FILT" -- --test-threads=1 2>&1 | grep -E "^test |test result" | head -8
git apply _seeded/patch.diff || { echo "patch.diff does not apply"; exit 2; }
echo "--- demo with patch"
cargo test -p saito-core --lib --offline "$FILT" -- --test-threads=1 2>&1 | grep -E "^test |test result" | head -8
echo "--- lib suite with patch (excluding demo)"
cargo test -p saito-core --lib --offline -- --test-threads=4 --skip "$FILT" 2>&1 | grep -E "test result|FAILED|failed" | head -12
git reset -q; git checkout -q -- . ; git clean -fdq -- saito-core saito-rust saito-wasm 2>/dev/null
