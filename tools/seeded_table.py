#!/usr/bin/env python3
"""Regenerates the seeded-changes table of DESIGN.md (§6) from seeded/*/meta.json."""
import json, glob, re
rows = ["| seed | change | needs to manifest | caught by (quick, seed 1) | missed before strengthening | strengthening |",
        "|------|--------|-------------------|---------------------------|-----------------------------|---------------|"]
for f in sorted(glob.glob('/verif/seeded/*/meta.json')):
    m = json.load(open(f))
    sid = f.split('/')[-2]
    det = "; ".join(f"**{k}** `{v}`" for k, v in m.get('detected_by', {}).items()) or "none"
    miss = ", ".join(m.get('missed_by_before_strengthening', [])) or "-"
    rows.append(f"| {sid} | {m['change']} | {m['needs_to_manifest']} | {det} | {miss} | {m.get('strengthening','-')} |")
tbl = "\n".join(rows)
p = '/verif/DESIGN.md'
s = open(p).read()
if 'SEEDED_TABLE' in s and '<!-- SEEDED_TABLE_BEGIN -->' not in s:
    s = s.replace('SEEDED_TABLE', '<!-- SEEDED_TABLE_BEGIN -->\n<!-- SEEDED_TABLE_END -->')
s = re.sub(r'<!-- SEEDED_TABLE_BEGIN -->.*?<!-- SEEDED_TABLE_END -->', lambda _: '<!-- SEEDED_TABLE_BEGIN -->\n' + tbl + '\n<!-- SEEDED_TABLE_END -->', s, flags=re.S)
open(p, 'w').write(s)
print(tbl[:400])
