#!/bin/bash
# Runs the repository's pinned suite (guard OFF) and checks that every stable-pass test passes.
cd /repo
OUT=$(mktemp)
CARGO_NET_OFFLINE=true cargo nextest run --workspace --no-fail-fast --tool-config-file pb:/w/lib/nextest.toml --profile pb --test-threads 8 --offline >"$OUT" 2>&1
J=$(find /repo/target/nextest/pb -name junit.xml | head -1)
python3 - "$J" <<'PY'
import sys, json, xml.etree.ElementTree as ET
base = json.load(open('/root/.vp/BASELINE.json'))
stable = set(base['stable_pass'])
t = ET.parse(sys.argv[1])
res = {}
for ts in t.getroot().iter('testsuite'):
    for tc in ts.iter('testcase'):
        name = ts.get('name') + '::' + tc.get('name')
        failed = any(c.tag in ('failure', 'error') for c in tc)
        res[name] = not failed
missing = [s for s in stable if s not in res]
bad = [s for s in stable if s in res and not res[s]]
print("stable:", len(stable), "passed:", sum(1 for s in stable if res.get(s)), "failed:", bad, "missing:", missing)
# tests share ./data directories and interfere when run in parallel: retry failures in isolation
import subprocess
still = []
for b in bad:
    crate, _, name = b.partition('::')
    ok = False
    for _ in range(3):
        r = subprocess.run(['cargo','nextest','run','-p',crate,'--offline','--', '--exact', name] if False else ['cargo','nextest','run','-p',crate,'--offline',name], cwd='/repo', capture_output=True, text=True)
        if r.returncode == 0 and '1 passed' in (r.stdout + r.stderr):
            ok = True; break
    print(" retry alone:", b, "->", "pass" if ok else "FAIL")
    if not ok: still.append(b)
sys.exit(1 if still or missing else 0)
PY
RC=$?
rm -f "$OUT"
exit $RC
