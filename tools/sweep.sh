#!/bin/bash
# tools/sweep.sh <tier> <seed>... : runs every check on the current tree, prints one line per check
TIER="$1"; shift
cd "$(dirname "$0")/.." || exit 2
for S in "$@"; do
  for ID in C01 C02 C03 C04 C05 C06 C07 C08 C09 C10 C11 C12 C13 C14 C15 C16 C17 C18 C19 C20; do
    OUT=$(VERIF_SEED=$S VERIF_NO_EVIDENCE=1 ./run_check.sh $ID $TIER 2>&1); RC=$?
    echo "seed=$S $ID rc=$RC $(echo "$OUT" | grep -E "^$ID $TIER" | cut -c1-140) $(echo "$OUT" | grep -E "key=" | head -3 | cut -c1-200)"
  done
done
