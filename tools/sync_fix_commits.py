#!/usr/bin/env python3
"""Keeps known_findings.json fix_commit ids (and the 'fixed: property=.. <commit>' text) in sync with
/repo's history after fix commits were amended: commits are matched by a distinctive subject fragment."""
import json, subprocess, re
FRAG = {
 "F51": "a connection that comes up again must not accept answers",
 "F49": "a block whose id does not follow the id of its previous block",
 "F48": "staking transactions obey the genesis period",
 "F45": "walks over block ids in the routing thread are bounded",
 "F46": "a block whose header carries id 0 is invalid",
 "F44": "handshake response carrying the node's own key must not authenticate",
 "F43": "transaction builder rejects payments whose total wraps",
 "F38": "fees paid by bound (NFT) transactions must be collected",
 "F39": "rebroadcast of an NFT group must take its rebroadcast fee",
 "F11": "rebroadcast payout must not wrap around 2^64",
 "F36": "a staking transaction must be signed by the owner",
 "F01": "reject a block when one of its transactions does not validate",
 "F02": "always compare the merkle root",
 "F03": "ATR payout cap must use the previous block's treasury",
 "F04": "Transaction::deserialize_from_net must reject buffers",
 "F05": "length-check a GhostChain message",
 "F06": "Wallet::deserialize_from_disk must not panic",
 "F07": "golden ticket transactions whose payload is not a 97-byte",
 "F08": "RingItem::delete_block must not invent",
 "F09": "failed reorganisation must restore the old chain",
 "F12": "actually detect an input that is listed twice",
 "F13": "every value-carrying input of a user transaction must belong",
 "F14": "outputs older than the genesis period must not be spendable",
 "F15": "at most one fee transaction",
 "F16": "must not admit Fee, ATR, SPV or Issuance",
 "F17": "SPV placeholder transactions must not carry slips",
 "F18": "totals must not wrap around 2^64",
 "F19": "golden ticket density rule must hold for every block",
 "F20": "recompute the rebroadcast hash after the ATR payout cap",
 "F21": "rebroadcast transactions must not be validated against the utxoset",
 "F22": "ATR payout cap must scale the rebroadcast amount",
 "F23": "mempool must release input reservations",
 "F24": "give the wallet's inputs back with their own coordinates",
 "F25": "only count funds the wallet is willing to spend",
 "F26": "lite block placeholders must carry the hash",
 "F29": "handshake response for a different key on an authenticated connection",
 "F30": "full node must ignore ghost chain messages",
 "F31": "Block-tagged message from a peer must not abort",
 "F32": "ghost chain request from a peer that has not completed the handshake",
 "F33": "key list that is refused",
 "F34": "handshake handlers must not take the configuration or blockchain lock",
}
log = subprocess.run(["git","-C","/repo","log","--format=%h %s"],capture_output=True,text=True).stdout.splitlines()
def find(frag):
    for l in log:
        h, s = l.split(" ",1)
        if frag in s: return h
    return None
p = "/verif/known_findings.json"
d = json.load(open(p))
for f in d["findings"]:
    if f["status"] != "fixed": continue
    frag = FRAG.get(f["id"])
    if not frag: print("no fragment for", f["id"]); continue
    h = find(frag)
    if not h: print("NOT FOUND", f["id"]); continue
    old = f.get("fix_commit")
    f["fix_commit"] = h
    f["what_fails"] = re.sub(r"(fixed: property=C\d+ )\S+", r"\g<1>"+h, f["what_fails"], count=1)
json.dump(d, open(p,"w"), indent=1)
print("synced", sum(1 for f in d["findings"] if f["status"]=="fixed"), "fixed entries")
