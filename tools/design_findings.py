#!/usr/bin/env python3
"""Regenerates the defects section of DESIGN.md from known_findings.json."""
import json, re
k = json.load(open('/verif/known_findings.json'))
fixed = [e for e in k['findings'] if e['status'] == 'fixed']
opened = [e for e in k['findings'] if e['status'] == 'open']
roots = sorted({e['id'].rstrip('abc') for e in opened})
rows = []
for e in fixed:
    parts = e['what_fails'].split(' ', 3)
    rows.append(f"| {e['id']} | {', '.join(e['properties'])} | `{parts[2]}` | {parts[3]} |")
ol = []
for e in opened:
    t = f"* **{e['id']}** ({', '.join(e['properties'])}) key `{e['key']}` - {e['what_fails']}."
    if e.get('why_not_repaired'):
        t += f"\n  *Why not repaired:* {e['why_not_repaired']}"
    ol.append(t)
txt = f"""{len(fixed) + len(roots)} root causes were confirmed against the real code (replay file + debug run),
{len(fixed)} repaired by one unguarded `fix:` commit each in /repo (the 104-test baseline
passes with all of them, guard off), {len(roots)} root causes ({len(opened)} keys) recorded as open
findings. Every repaired finding keeps a `regress_*.json` replay under
`replays/<ID>/` that every run of the check re-executes; a fixed entry
suppresses nothing.

| id | properties | commit | what failed |
|----|-----------|--------|-------------|
""" + "\n".join(rows) + """

Open findings (check prints `KNOWN-FINDING: property=<id> key=<key> ...` and
exits 0 while exactly that key reproduces; any other key is a VIOLATION):

""" + "\n".join(ol) + "\n"
p = '/verif/DESIGN.md'
s = open(p).read()
if '<!-- FINDINGS_BEGIN -->' not in s:
    a = s.index("### As built: defects found on the pinned tree") + len("### As built: defects found on the pinned tree\n")
    b = s.index("## 2. The three generated worlds")
    s = s[:a] + "\n<!-- FINDINGS_BEGIN -->\n<!-- FINDINGS_END -->\n\n" + s[b:]
s = re.sub(r'<!-- FINDINGS_BEGIN -->.*?<!-- FINDINGS_END -->', lambda _: '<!-- FINDINGS_BEGIN -->\n' + txt + '<!-- FINDINGS_END -->', s, flags=re.S)
open(p, 'w').write(s)
print(len(fixed), 'fixed', len(opened), 'open keys', len(roots), 'open roots')
