#![no_main]
//! Coverage-guided fuzzing of every decoder fed by peers or disk (C10 thorough tier).
//! byte 0 selects the decoder, the rest is the input. Oracles inside the target:
//!  - no panic / abort (libFuzzer reports it, ASan reports out-of-bounds),
//!  - a value that decodes re-encodes to bytes that decode to the same encoding (C09 idempotence),
//!  - allocation stays bounded (libFuzzer -malloc_limit_mb / -rss_limit_mb).
use libfuzzer_sys::fuzz_target;
use saito_core::core::consensus::block::{Block, BlockType};
use saito_core::core::consensus::golden_ticket::GoldenTicket;
use saito_core::core::consensus::hop::Hop;
use saito_core::core::consensus::peers::peer_service::PeerService;
use saito_core::core::consensus::slip::Slip;
use saito_core::core::consensus::transaction::{Transaction, TransactionType};
use saito_core::core::consensus::wallet::Wallet;
use saito_core::core::msg::block_request::BlockchainRequest;
use saito_core::core::msg::handshake::{HandshakeChallenge, HandshakeResponse};
use saito_core::core::msg::message::Message;
use saito_core::core::process::version::Version;
use saito_core::core::util::balance_snapshot::BalanceSnapshot;
use saito_core::core::util::serialize::Serialize;

fuzz_target!(|data: &[u8]| {
    if data.is_empty() {
        return;
    }
    let (sel, bytes) = (data[0] % 12, &data[1..]);
    match sel {
        0 => {
            if let Ok(s) = Slip::deserialize_from_net(&bytes.to_vec()) {
                assert_eq!(s.serialize_for_net(), bytes);
            }
        }
        1 => {
            if let Ok(h) = Hop::deserialize_from_net(&bytes.to_vec()) {
                assert_eq!(h.serialize_for_net(), bytes);
            }
        }
        2 => {
            if let Ok(mut t) = Transaction::deserialize_from_net(bytes) {
                let e = t.serialize_for_net();
                assert_eq!(e.len(), t.get_serialized_size());
                let t2 = Transaction::deserialize_from_net(&e).expect("re-encoded transaction must decode");
                assert_eq!(t2.serialize_for_net(), e);
                if t.transaction_type == TransactionType::GoldenTicket {
                    let _ = GoldenTicket::deserialize_from_net(&t.data);
                }
                t.generate(&[2; 33], 1, 2);
            }
        }
        3 => {
            if let Ok(mut b) = Block::deserialize_from_net(bytes) {
                let e = b.serialize_for_net(BlockType::Full);
                let b2 = Block::deserialize_from_net(&e).expect("re-encoded block must decode");
                assert_eq!(b2.serialize_for_net(BlockType::Full), e);
                // Block::generate() is not a decoder (it expands the attacker-chosen txs_replacements
                // field into merkle leaves, known finding F35 under C11) and is not called here.
                let _ = &mut b;
            }
        }
        4 => {
            if let Ok(m) = Message::deserialize(bytes.to_vec()) {
                let e = m.serialize();
                if !e.is_empty() {
                    let _ = Message::deserialize(e);
                }
            }
        }
        5 => {
            let _ = HandshakeChallenge::deserialize(&bytes.to_vec());
        }
        6 => {
            if let Ok(r) = HandshakeResponse::deserialize(&bytes.to_vec()) {
                let _ = r.serialize();
            }
        }
        7 => {
            let _ = BlockchainRequest::deserialize(&bytes.to_vec());
        }
        8 => {
            let _ = PeerService::deserialize_services(bytes.to_vec());
        }
        9 => {
            let _ = Version::deserialize(&bytes.to_vec());
        }
        10 => {
            let mut w = Wallet::new([0; 32], [0; 33]);
            w.deserialize_from_disk(bytes);
        }
        _ => {
            if let Ok(s) = String::from_utf8(bytes.to_vec()) {
                let _ = BalanceSnapshot::try_from(s);
            }
        }
    }
});
