#!/bin/bash
# run_check.sh <ID> <quick|thorough|replay> [replay-file]
# Rebuilds the harness against /repo's *current working tree* (path dependency, --cfg saito_verif),
# runs the check, maps exit codes: 0 held (KNOWN-FINDING lines allowed), 1 unlisted violation,
# 2 infrastructure problem (build failure / watchdog) -- never used to hide a violation.
set -u
ID="${1:?property id}"
MODE="${2:-quick}"
FILE="${3:-}"
HERE="$(cd "$(dirname "$0")" && pwd)"
cd "$HERE/harness" || exit 2
export CARGO_NET_OFFLINE=true
# everything is relative to this script, so a snapshot copy of /verif is self-contained
export VERIF_DIR="$HERE"
export CARGO_TARGET_DIR="$HERE/harness/target"
export VERIF_SEED="${VERIF_SEED:-1}"
mkdir -p "$HERE/evidence" "$HERE/replays"
LOG="$HERE/harness/target/build_${ID}.log"
mkdir -p "$HERE/harness/target"
(
  flock 9
  cargo build --release >"$LOG" 2>&1
) 9>"$HERE/harness/target/.build.lock"
if [ $? -ne 0 ] || [ ! -x target/release/vcheck ]; then
  echo "BUILD-FAILED for $ID (see $LOG)"
  tail -n 40 "$LOG"
  exit 2
fi
# C18 also drives the lite-block route of saito-rust through a separate binary (it links saito-rust
# with its web server). If that crate does not build the route part is skipped and recorded as such.
if [ "$ID" = "C18" ]; then
  (
    flock 9
    cd "$HERE/route" && CARGO_TARGET_DIR="$HERE/route/target" cargo build --release >"$HERE/harness/target/build_route.log" 2>&1
  ) 9>"$HERE/harness/target/.build_route.lock" || echo "note: route crate did not build (see harness/target/build_route.log); route sub-check skipped"
fi
BIN="$HERE/harness/target/release/vcheck"
case "$MODE" in
  quick)    WD=1500; ARGS=(run "$ID" --tier quick --seed "$VERIF_SEED") ;;
  thorough) WD=14000; ARGS=(run "$ID" --tier thorough --seed "$VERIF_SEED") ;;
  replay)   WD=600; ARGS=(replay "$ID" "$FILE") ;;
  *) echo "unknown mode $MODE"; exit 2 ;;
esac
cd "$HERE" || exit 2
timeout -k 10 "$WD" "$BIN" "${ARGS[@]}"
RC=$?
if [ $RC -eq 124 ] || [ $RC -eq 137 ]; then
  echo "WATCHDOG: $ID $MODE exceeded ${WD}s -- inconclusive"
  exit 2
fi
if [ $RC -ne 0 ] && [ $RC -ne 1 ]; then
  echo "INFRA: vcheck exited with $RC"
  exit 2
fi
exit $RC
