//! Observable-state snapshots of a node and the C03 consistency oracle
//! ("ledger state equals a replay of the longest chain").

use std::collections::{BTreeMap, BTreeSet};

use saito_core::core::consensus::block::Block;
use saito_core::core::defs::*;

use crate::refmodel::*;
use crate::world::{hx, Node};

#[derive(Debug, Clone, PartialEq, Eq)]
pub struct Snapshot {
    pub tip_id: u64,
    pub tip_hash: SaitoHash,
    pub last_block_id: u64,
    pub last_block_hash: SaitoHash,
    pub utxo: BTreeMap<UKey, bool>,
    pub lc_index: Vec<(u64, Option<SaitoHash>)>,
    pub blocks: BTreeMap<SaitoHash, (u64, bool)>,
    pub wallet_balance: u64,
    /// utxo key -> (amount, block id, tx ordinal, slip index, on-chain flag, spent flag, type code)
    pub wallet_slips: BTreeMap<Vec<u8>, (u64, u64, u64, u8, bool, bool, u8)>,
    pub wallet_unspent: BTreeSet<Vec<u8>>,
    pub pool: BTreeSet<Vec<u8>>,
}

pub async fn snapshot(n: &Node, max_id: u64) -> Snapshot {
    let w = n.wallet.read().await;
    Snapshot {
        tip_id: n.chain.get_latest_block_id(),
        tip_hash: n.chain.get_latest_block_hash(),
        last_block_id: n.chain.last_block_id,
        last_block_hash: n.chain.last_block_hash,
        utxo: impl_utxo(&n.chain),
        lc_index: (1..=max_id)
            .map(|i| (i, n.chain.blockring.get_longest_chain_block_hash_at_block_id(i)))
            .collect(),
        blocks: n.chain.blocks.iter().map(|(h, b)| (*h, (b.id, b.in_longest_chain))).collect(),
        wallet_balance: w.get_available_balance(),
        wallet_slips: w.slips.iter().map(|(k, s)| (k.to_vec(), (s.amount, s.block_id, s.tx_ordinal, s.slip_index, s.lc, s.spent, type_code(s.slip_type)))).collect(),
        wallet_unspent: w.unspent_slips.iter().map(|k| k.to_vec()).collect(),
        pool: n.mempool.transactions.keys().map(|k| k.to_vec()).collect(),
    }
}

/// Which components differ between two snapshots (for keys and messages).
pub fn snapshot_diff(a: &Snapshot, b: &Snapshot) -> Vec<&'static str> {
    let mut d = vec![];
    if a.tip_id != b.tip_id || a.tip_hash != b.tip_hash {
        d.push("tip");
    }
    if a.utxo != b.utxo {
        d.push("utxoset");
    }
    if a.lc_index != b.lc_index {
        d.push("chain_index");
    }
    if a.blocks != b.blocks {
        d.push("stored_blocks");
    }
    if a.wallet_balance != b.wallet_balance || a.wallet_slips != b.wallet_slips || a.wallet_unspent != b.wallet_unspent {
        d.push("wallet");
    }
    d
}

/// The harness' own table of every block it ever built (hash -> block), independent of what the
/// node keeps or prunes.
#[derive(Default)]
pub struct BlockTable {
    pub by_hash: BTreeMap<SaitoHash, Block>,
}
impl BlockTable {
    pub fn from_blocks(bs: &[Block]) -> BlockTable {
        let mut t = BlockTable::default();
        for b in bs {
            t.by_hash.insert(b.hash, b.clone());
        }
        t
    }
    pub fn insert(&mut self, b: &Block) {
        self.by_hash.insert(b.hash, b.clone());
    }
    /// Ancestor path genesis..=h using the harness' table.
    pub fn path(&self, h: &SaitoHash) -> Option<Vec<&Block>> {
        let mut v = vec![];
        let mut cur = *h;
        while cur != [0; 32] {
            let b = self.by_hash.get(&cur)?;
            v.push(b);
            cur = b.previous_block_hash;
        }
        v.reverse();
        Some(v)
    }
}

/// C03 oracle. Returns (key suffix, description) for every disagreement between the node's
/// observable state and the replay of the ancestor path of its reported tip.
pub fn check_consistency(n: &Node, table: &BlockTable, max_id: u64) -> Vec<(String, String)> {
    check_consistency_above(n, table, max_id, 0)
}

/// Like `check_consistency`, but index and flags are judged only above `floor` (in addition to the
/// purge horizon of the current tip).
pub fn check_consistency_above(n: &Node, table: &BlockTable, max_id: u64, floor: u64) -> Vec<(String, String)> {
    let mut v = vec![];
    let tip_hash = n.chain.get_latest_block_hash();
    let tip_id = n.chain.get_latest_block_id();
    if tip_hash == [0; 32] {
        if !n.chain.blocks.is_empty() && n.chain.blocks.values().any(|b| b.in_longest_chain) {
            v.push(("tip_unset_with_onchain_blocks".into(), "no tip reported although stored blocks are flagged on-chain".into()));
        }
        return v;
    }
    let path = match table.path(&tip_hash) {
        Some(p) => p,
        None => {
            v.push(("tip_unknown".into(), format!("reported tip {} is not a block that was delivered", hx(&tip_hash))));
            return v;
        }
    };
    let gp = n.ncfg.gp;
    // (iii) tip id/hash describe the same block
    let tipb = path.last().unwrap();
    if tipb.id != tip_id {
        v.push(("tip_id".into(), format!("tip hash {} has id {} but get_latest_block_id says {}", hx(&tip_hash), tipb.id, tip_id)));
    }
    // (i) by-height index: only heights the node still keeps (younger than the purge horizon)
    let horizon = tip_id.saturating_sub(2 * gp).max(floor);
    let on_path: BTreeMap<u64, SaitoHash> = path.iter().map(|b| (b.id, b.hash)).collect();
    for id in 1..=max_id.max(tip_id + 2) {
        if id <= horizon {
            continue;
        }
        let got = n.chain.blockring.get_longest_chain_block_hash_at_block_id(id);
        let want = if id <= tip_id { on_path.get(&id).copied() } else { None };
        if got != want {
            v.push((
                "chain_index".into(),
                format!("index at height {}: got {:?} want {:?} (tip {})", id, got.map(|h| hx(&h)), want.map(|h| hx(&h)), tip_id),
            ));
            break;
        }
    }
    // (ii) per-block flag
    let path_set: BTreeSet<SaitoHash> = path.iter().map(|b| b.hash).collect();
    for (h, b) in n.chain.blocks.iter() {
        // like the index, judged only above the purge horizon: a purged ancestor that is delivered
        // again is stored off-chain, in agreement with the index, which reports nothing at its height
        if b.id <= horizon {
            continue;
        }
        let want = path_set.contains(h);
        if b.in_longest_chain != want {
            v.push((
                "block_flag".into(),
                format!("stored block {} (id {}) in_longest_chain={} but {} on the tip's ancestor path", hx(h), b.id, b.in_longest_chain, if want { "is" } else { "is not" }),
            ));
            break;
        }
    }
    // (iv) utxoset == replay of the path, on the entries that can still matter: outputs created in
    // block c are spendable up to block c+gp and are read once more by the rebroadcast of block
    // c+gp+1, so with the next block being tip+1 everything created before tip-gp is dead weight
    // (e.g. the payout-adjusted input of an unwound rebroadcast, re-inserted under a key that never
    // existed but is expired by age) until the purge removes it
    let floor = tip_id.saturating_sub(gp).max(horizon + 1);
    let (ledger, _issues) = RefLedger::replay(gp, &path);
    let impl_set = impl_utxo(&n.chain);
    for (k, e) in ledger.utxo.iter() {
        if e.block_id < floor {
            continue;
        }
        match impl_set.get(k) {
            Some(true) => {}
            Some(false) => {
                v.push(("utxo_flag_false".into(), format!("output {}-{}-{} amount {} is spendable in the replay but flagged unspendable", e.block_id, e.tx_ordinal, e.slip_index, e.amount)));
                break;
            }
            None => {
                v.push(("utxo_missing".into(), format!("output {}-{}-{} amount {} results from the replay but is not in the utxoset", e.block_id, e.tx_ordinal, e.slip_index, e.amount)));
                break;
            }
        }
    }
    for (k, flag) in impl_set.iter() {
        if !*flag {
            continue;
        }
        let bid = u64::from_be_bytes(k[33..41].try_into().unwrap());
        if bid < floor {
            continue;
        }
        if !ledger.utxo.contains_key(k) {
            let amount = u64::from_be_bytes(k[50..58].try_into().unwrap());
            v.push(("utxo_extra".into(), format!("utxoset holds a spendable output (block {}, amount {}) that the replay of the longest chain does not produce", bid, amount)));
            break;
        }
    }
    v
}


/// Footprint of finding F47: two spendable utxoset entries with the same owner and coordinates but
/// different amounts - an original output and the payout-adjusted input of an unwound rebroadcast
/// transaction, re-inserted under a key that never was an output. Returns a description of one.
pub fn phantom_rebroadcast_input(chain: &saito_core::core::consensus::blockchain::Blockchain) -> Option<String> {
    use saito_core::core::consensus::slip::Slip;
    let mut seen: BTreeMap<(Vec<u8>, u64, u64, u8), u64> = BTreeMap::new();
    for (k, spendable) in chain.utxoset.iter() {
        if !*spendable {
            continue;
        }
        let s = match Slip::parse_slip_from_utxokey(k) {
            Ok(s) => s,
            Err(_) => continue,
        };
        if s.amount == 0 {
            continue;
        }
        let coord = (s.public_key.to_vec(), s.block_id, s.tx_ordinal, s.slip_index);
        if let Some(other) = seen.get(&coord) {
            if *other != s.amount {
                return Some(format!("output {}-{}-{} is in the utxoset twice, with amounts {} and {}", s.block_id, s.tx_ordinal, s.slip_index, other.min(&s.amount), other.max(&s.amount)));
            }
        }
        seen.insert(coord, s.amount);
    }
    None
}
