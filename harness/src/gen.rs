//! proptest strategies for structurally valid values of the wire/disk formats.
//! Values use distinct, non-default field contents so that field-order, width and truncation
//! errors in an encoder/decoder pair cannot cancel out.

use proptest::prelude::*;
use saito_core::core::consensus::block::Block;
use saito_core::core::consensus::hop::Hop;
use saito_core::core::consensus::slip::{Slip, SlipType};
use saito_core::core::consensus::transaction::{Transaction, TransactionType};
use serde::{Deserialize, Serialize};

use crate::world::key;

// Plain-data mirrors (serde) used as the generated values; converted to the real types.

#[derive(Debug, Clone, Serialize, Deserialize, PartialEq, Eq, Hash)]
pub struct GSlip {
    pub pk: Vec<u8>, // 33 bytes
    pub amount: u64,
    pub block_id: u64,
    pub tx_ordinal: u64,
    pub slip_index: u8,
    pub slip_type: u8, // 0..=9
}
#[derive(Debug, Clone, Serialize, Deserialize, PartialEq, Eq, Hash)]
pub struct GHop {
    pub from: Vec<u8>,
    pub to: Vec<u8>,
    pub sig: Vec<u8>,
}
#[derive(Debug, Clone, Serialize, Deserialize, PartialEq, Eq, Hash)]
pub struct GTx {
    pub timestamp: u64,
    pub from: Vec<GSlip>,
    pub to: Vec<GSlip>,
    pub data_len: u32,
    pub data_seed: u8,
    pub tx_type: u8, // 0..=8
    pub txs_replacements: u32,
    pub sig: Vec<u8>, // 64
    pub path: Vec<GHop>,
}
#[derive(Debug, Clone, Serialize, Deserialize, PartialEq, Eq, Hash)]
pub struct GBlock {
    pub id: u64,
    pub timestamp: u64,
    pub prev: Vec<u8>,
    pub creator: Vec<u8>,
    pub merkle: Vec<u8>,
    pub sig: Vec<u8>,
    pub nums: Vec<u64>, // 25 u64 header fields in serialization order after the signature
    pub txs: Vec<GTx>,
}

pub fn slip_type_from(n: u8) -> SlipType {
    match n % 10 {
        0 => SlipType::Normal,
        1 => SlipType::ATR,
        2 => SlipType::VipInput,
        3 => SlipType::VipOutput,
        4 => SlipType::MinerInput,
        5 => SlipType::MinerOutput,
        6 => SlipType::RouterInput,
        7 => SlipType::RouterOutput,
        8 => SlipType::BlockStake,
        _ => SlipType::Bound,
    }
}
pub fn tx_type_from(n: u8) -> TransactionType {
    match n % 9 {
        0 => TransactionType::Normal,
        1 => TransactionType::Fee,
        2 => TransactionType::GoldenTicket,
        3 => TransactionType::ATR,
        4 => TransactionType::Vip,
        5 => TransactionType::SPV,
        6 => TransactionType::Issuance,
        7 => TransactionType::BlockStake,
        _ => TransactionType::Bound,
    }
}

fn arr<const N: usize>(v: &[u8]) -> [u8; N] {
    let mut a = [0u8; N];
    let n = v.len().min(N);
    a[..n].copy_from_slice(&v[..n]);
    a
}

impl GSlip {
    pub fn to_slip(&self) -> Slip {
        let mut s = Slip::default();
        s.public_key = arr::<33>(&self.pk);
        s.amount = self.amount;
        s.block_id = self.block_id;
        s.tx_ordinal = self.tx_ordinal;
        s.slip_index = self.slip_index;
        s.slip_type = slip_type_from(self.slip_type);
        s
    }
}
impl GHop {
    pub fn to_hop(&self) -> Hop {
        let mut h = Hop::default();
        h.from = arr::<33>(&self.from);
        h.to = arr::<33>(&self.to);
        h.sig = arr::<64>(&self.sig);
        h
    }
}
pub fn data_bytes(len: u32, seed: u8) -> Vec<u8> {
    (0..len)
        .map(|i| (i as u8).wrapping_mul(31).wrapping_add(seed).wrapping_add((i >> 8) as u8))
        .collect()
}
impl GTx {
    pub fn to_tx(&self) -> Transaction {
        let mut t = Transaction::default();
        t.timestamp = self.timestamp;
        t.from = self.from.iter().map(|s| s.to_slip()).collect();
        t.to = self.to.iter().map(|s| s.to_slip()).collect();
        t.transaction_type = tx_type_from(self.tx_type);
        // structural validity: the payload of a golden ticket transaction is a 97-byte ticket
        let len = if t.transaction_type == TransactionType::GoldenTicket { 97 } else { self.data_len };
        t.data = data_bytes(len, self.data_seed);
        t.txs_replacements = self.txs_replacements;
        t.signature = arr::<64>(&self.sig);
        t.path = self.path.iter().map(|h| h.to_hop()).collect();
        t
    }
}
impl GBlock {
    pub fn to_block(&self) -> Block {
        let mut b = Block::new();
        b.id = self.id;
        b.timestamp = self.timestamp;
        b.previous_block_hash = arr::<32>(&self.prev);
        b.creator = arr::<33>(&self.creator);
        b.merkle_root = arr::<32>(&self.merkle);
        b.signature = arr::<64>(&self.sig);
        let n = |i: usize| self.nums.get(i).copied().unwrap_or(0);
        b.graveyard = n(0);
        b.treasury = n(1);
        b.burnfee = n(2);
        b.difficulty = n(3);
        b.avg_total_fees = n(4);
        b.avg_fee_per_byte = n(5);
        b.avg_nolan_rebroadcast_per_block = n(6);
        b.previous_block_unpaid = n(7);
        b.avg_total_fees_new = n(8);
        b.avg_total_fees_atr = n(9);
        b.avg_payout_routing = n(10);
        b.avg_payout_mining = n(11);
        b.avg_payout_treasury = n(12);
        b.avg_payout_graveyard = n(13);
        b.avg_payout_atr = n(14);
        b.total_payout_routing = n(15);
        b.total_payout_mining = n(16);
        b.total_payout_treasury = n(17);
        b.total_payout_graveyard = n(18);
        b.total_payout_atr = n(19);
        b.total_fees = n(20);
        b.total_fees_new = n(21);
        b.total_fees_atr = n(22);
        b.fee_per_byte = n(23);
        b.total_fees_cumulative = n(24);
        b.transactions = self.txs.iter().map(|t| t.to_tx()).collect();
        b
    }
}

// ---------------------------------------------------------------------------

pub fn bytes_n(n: usize) -> impl Strategy<Value = Vec<u8>> {
    proptest::collection::vec(any::<u8>(), n..=n)
}

/// Public key: mostly a real key of the deterministic ring, sometimes arbitrary bytes.
pub fn arb_pk() -> impl Strategy<Value = Vec<u8>> {
    prop_oneof![
        3 => (0u8..8).prop_map(|i| key(i).0.to_vec()),
        1 => bytes_n(33),
    ]
}

/// u64 with emphasis on boundary values.
pub fn arb_u64() -> impl Strategy<Value = u64> {
    prop_oneof![
        4 => any::<u64>(),
        2 => 0u64..1000,
        1 => Just(0u64),
        1 => Just(1u64),
        1 => Just(u64::MAX),
        1 => Just(1u64 << 63),
        1 => Just((1u64 << 63) - 1),
        1 => Just((1u64 << 32) + 1),
        1 => Just(0x0102_0304_0506_0708u64),
    ]
}

pub fn arb_slip() -> impl Strategy<Value = GSlip> {
    (arb_pk(), arb_u64(), arb_u64(), arb_u64(), any::<u8>(), 0u8..10).prop_map(
        |(pk, amount, block_id, tx_ordinal, slip_index, slip_type)| GSlip {
            pk,
            amount,
            block_id,
            tx_ordinal,
            slip_index,
            slip_type,
        },
    )
}

pub fn arb_hop() -> impl Strategy<Value = GHop> {
    (arb_pk(), arb_pk(), bytes_n(64)).prop_map(|(from, to, sig)| GHop { from, to, sig })
}

fn slip_count() -> impl Strategy<Value = usize> {
    prop_oneof![
        6 => 0usize..4,
        2 => 4usize..20,
        1 => Just(255usize),
        1 => Just(254usize),
    ]
}
fn data_len() -> impl Strategy<Value = u32> {
    prop_oneof![
        6 => 0u32..64,
        2 => 64u32..2048,
        1 => Just(97u32),
        1 => 60_000u32..72_000,
    ]
}

pub fn arb_tx() -> impl Strategy<Value = GTx> {
    (slip_count(), slip_count()).prop_flat_map(|(nf, nt)| {
        (
            arb_u64(),
            proptest::collection::vec(arb_slip(), nf..=nf),
            proptest::collection::vec(arb_slip(), nt..=nt),
            data_len(),
            any::<u8>(),
            0u8..9,
            prop_oneof![3 => Just(1u32), 1 => any::<u32>(), 1 => 2u32..9],
            bytes_n(64),
            proptest::collection::vec(arb_hop(), 0..5),
        )
            .prop_map(
                |(timestamp, from, to, data_len, data_seed, tx_type, txs_replacements, sig, path)| GTx {
                    timestamp,
                    from,
                    to,
                    data_len,
                    data_seed,
                    tx_type,
                    txs_replacements,
                    sig,
                    path,
                },
            )
    })
}

/// Smaller transactions for embedding into blocks.
pub fn arb_small_tx() -> impl Strategy<Value = GTx> {
    (
        arb_u64(),
        proptest::collection::vec(arb_slip(), 0..4),
        proptest::collection::vec(arb_slip(), 0..4),
        0u32..200,
        any::<u8>(),
        0u8..9,
        prop_oneof![3 => Just(1u32), 1 => any::<u32>()],
        bytes_n(64),
        proptest::collection::vec(arb_hop(), 0..3),
    )
        .prop_map(
            |(timestamp, from, to, data_len, data_seed, tx_type, txs_replacements, sig, path)| GTx {
                timestamp,
                from,
                to,
                data_len,
                data_seed,
                tx_type,
                txs_replacements,
                sig,
                path,
            },
        )
}

pub fn arb_block() -> impl Strategy<Value = GBlock> {
    (
        arb_u64(),
        arb_u64(),
        bytes_n(32),
        arb_pk(),
        bytes_n(32),
        bytes_n(64),
        proptest::collection::vec(arb_u64(), 25..=25),
        // mostly small transactions, now and then one of full generality (up to 255 slips on each
        // side, large payload) embedded in the block
        proptest::collection::vec(prop_oneof![7 => arb_small_tx().boxed(), 1 => arb_tx().boxed()], 0..9),
    )
        .prop_map(|(id, timestamp, prev, creator, merkle, sig, nums, txs)| GBlock {
            id,
            timestamp,
            prev,
            creator,
            merkle,
            sig,
            nums,
            txs,
        })
}

/// A service-string component: the format's implicit precondition is that it contains neither
/// `|` nor `;` (the separators).
pub fn arb_service_word() -> impl Strategy<Value = String> {
    // ASCII plus a few two- and three-byte characters (host names and service names are free text)
    "[A-Za-z0-9 _.:/üé日本-]{0,12}"
}
