//! C15 — a node that syncs from a peer converges to the peer's chain; the common-ancestor
//! estimate from the compact fork id is never later than the true fork point.

use std::collections::{BTreeMap, BTreeSet, VecDeque};
use std::sync::atomic::{AtomicU64, Ordering};
use std::sync::Arc;

use proptest::prelude::*;
use proptest::strategy::ValueTree;
use saito_core::core::consensus::block::Block;
use saito_core::core::consensus::blockchain::Blockchain;
use saito_core::core::consensus::wallet::Wallet;
use saito_core::core::defs::*;
use saito_core::core::io::network_event::NetworkEvent;
use serde::{Deserialize, Serialize};
use serde_json::json;
use tokio::sync::RwLock;

use crate::chain::*;
use crate::ctx::{block_on, digest, pbt_run, runner, Ctx};
use crate::net::*;
use crate::world::*;

// ---------------------------------------------------------------------------
// (a) ancestor estimate on synthetic rings
// ---------------------------------------------------------------------------

/// Synthetic hash: for every checkpoint byte pair (2i, 2i+1): first byte = a mix of the height,
/// second byte = chain tag. Two distinct blocks of different chains never agree on a *pair*
/// (the by-design 2^-16 fingerprint collision is outside the domain) while single bytes agree often.
fn synth_hash(height: u64, tag: u8) -> SaitoHash {
    let mut h = [0u8; 32];
    for i in 0..16 {
        h[2 * i] = ((height.wrapping_mul(31).wrapping_add(i as u64 * 7)) & 0xff) as u8;
        h[2 * i + 1] = tag;
    }
    h
}

fn synth_chain(len: u64, fork_at: u64, own_tag: u8) -> Blockchain {
    let gp: u64 = len / 2 + 8; // ring of 2*gp slots: just large enough that heights do not share slots
    let (pk, sk) = key(0);
    let w = Arc::new(RwLock::new(Wallet::new(sk, pk)));
    let mut c = Blockchain::new(w, gp, 0, 60);
    for h in 1..=len {
        let tag = if h <= fork_at { 10 } else { own_tag };
        let hash = synth_hash(h, tag);
        let pos = (h % (2 * gp)) as usize;
        c.blockring.ring[pos].add_block(h, hash);
        c.blockring.on_chain_reorganization(h, hash, true);
    }
    c.blockring.empty = false;
    c
}

#[derive(Debug, Clone, Serialize, Deserialize, PartialEq, Eq, Hash)]
pub struct AncCase {
    pub fork_at: u64,
    pub my_len: u64,
    pub peer_len: u64,
}

fn check_ancestor(c: &AncCase) -> Vec<(String, String)> {
    let mut v = vec![];
    let fork_at = c.fork_at.min(c.my_len).min(c.peer_len);
    let mine = synth_chain(c.my_len, fork_at, 20);
    let peer = synth_chain(c.peer_len, fork_at, 30);
    let fork_id = match peer.generate_fork_id(c.peer_len) {
        Some(f) => f,
        None => return v,
    };
    let est = mine.generate_last_shared_ancestor(c.peer_len, fork_id);
    if est > fork_at {
        v.push((
            format!("C15|ancestor_estimate_after_fork_point|peer_{}", if c.peer_len >= c.my_len { "ahead" } else { "behind" }),
            format!("chains share blocks 1..={fork_at} (mine {} long, peer's {}), the estimate from the peer's fork id is {est}", c.my_len, c.peer_len),
        ));
    }
    // header hashes are streamed from the estimate: everything after the true fork point is covered
    v
}

pub fn arb_anc() -> impl Strategy<Value = AncCase> {
    let len = || prop_oneof![3 => 1u64..200, 3 => 200u64..6_000, 2 => 6_000u64..40_000, 1 => 40_000u64..200_000];
    (len(), len(), any::<u16>()).prop_map(|(a, b, f)| {
        let m = a.min(b);
        AncCase { fork_at: ((f as u64) * (m + 1)) >> 16, my_len: a, peer_len: b }
    })
}

// ---------------------------------------------------------------------------
// (b) convergence in the net world
// ---------------------------------------------------------------------------

#[derive(Debug, Clone, Serialize, Deserialize, PartialEq, Eq, Hash)]
pub struct SyncCase {
    /// shared prefix length beyond genesis, own suffix, peer suffix (peer's chain is longer)
    pub p: u8,
    pub a: u8,
    pub b: u8,
    pub loading_completed: bool,
    /// scheduler choices
    pub schedule: Vec<u16>,
    pub batch: u8,
    /// 0: the generated schedule decides. k > 0: a fixed adversarial delivery policy - internal events
    /// first, then the peer's messages newest first in bursts of k, then every pending fetch
    /// (lowest height first) before the next burst
    #[serde(default)]
    pub burst_policy: u8,
    /// second round: once the node has converged the connection drops, the node adds `a2` blocks of
    /// its own and the peer `b2` > a2 blocks on the common tip, and they connect again (b2 = 0: no
    /// second round)
    #[serde(default)]
    pub a2: u8,
    #[serde(default)]
    pub b2: u8,
}

#[derive(Debug, Default)]
pub struct SyncInfo {
    pub steps: usize,
    pub fetches: usize,
    pub out_of_order_completions: usize,
    pub overtaking_messages: usize,
    pub converged: bool,
    pub second_round: bool,
}

fn bspec(i: usize, parent: Option<u16>, dt: u32) -> BlockSpec {
    BlockSpec { parent, dt, gt: i % 2 == 0, creator: 0, miner: 1, txs: vec![], bad_tx: None, corrupt: None, back: None }
}

pub fn run_sync(case: &SyncCase) -> (Vec<(String, String)>, SyncInfo) {
    let mut info = SyncInfo::default();
    let mut v: Vec<(String, String)> = vec![];
    let ncfg = NodeCfg { gp: 100, heartbeat: 100, social_stake: 0, loading_completed: case.loading_completed, prune: 8 };
    let (p, a, b) = (case.p as usize, case.a as usize, (case.b as usize).max(case.a as usize + 1));
    // build: prefix, then A's suffix, then B's suffix from the fork point
    let mut blocks = vec![];
    for i in 0..p {
        blocks.push(bspec(i, None, 250));
    }
    for j in 0..a {
        let parent = if j == 0 { Some((((p as u64) << 16).div_ceil((1 + p + j) as u64)) as u16) } else { None };
        blocks.push(bspec(50 + j, parent, 260));
    }
    for j in 0..b {
        let parent = if j == 0 { Some((((p as u64) << 16).div_ceil((1 + p + a + j) as u64)) as u16) } else { None };
        blocks.push(bspec(70 + j, parent, 240));
    }
    let (a2, b2) = if case.b2 > 0 { ((case.a2 as usize).min(case.b2 as usize - 1), case.b2 as usize) } else { (0, 0) };
    for j in 0..a2 {
        blocks.push(bspec(90 + j, None, 270));
    }
    for j in 0..b2 {
        // the first one builds on the peer's first tip (index p + a + b)
        let parent = if j == 0 && a2 > 0 { Some(((((p + a + b) as u64) << 16).div_ceil((1 + p + a + b + a2) as u64)) as u16) } else { None };
        blocks.push(bspec(110 + j, parent, 230));
    }
    let spec = HistSpec { ncfg, treasury: 0, issuance: vec![(0, 5_000_000), (1, 6_000_000)], blocks, gt_policy: true };
    let built = block_on(build_history(&spec));
    if built.blocks.len() != 1 + p + a + b + a2 + b2 {
        return (v, info); // builder truncated (not the subject)
    }
    let first = 1 + p + a + b;
    if a2 > 0 && (built.blocks[first].previous_block_hash != built.blocks[first - 1].hash || built.blocks[first + a2].previous_block_hash != built.blocks[first - 1].hash) {
        return (v, info); // second-round branches do not both start at the first tip (not the subject)
    }
    let by_hash: BTreeMap<SaitoHash, &Block> = built.blocks.iter().map(|x| (x.hash, x)).collect();
    let clock = Arc::new(AtomicU64::new(5_000_000));
    let mut na = NetNode::new(1, ncfg, clock.clone(), 1, case.batch.max(1) as usize, MemIO::new());
    let mut nb = NetNode::new(2, ncfg, clock.clone(), 0, 10, MemIO::new());
    let _ = na.init();
    let _ = nb.init();
    for i in 0..=p {
        na.add_direct(built.blocks[i].clone());
        nb.add_direct(built.blocks[i].clone());
    }
    for i in 1 + p..1 + p + a {
        na.add_direct(built.blocks[i].clone());
    }
    for i in 1 + p + a..1 + p + a + b {
        nb.add_direct(built.blocks[i].clone());
    }
    let mut peer_tip = built.blocks[first - 1].hash;
    if nb.tip().1 != peer_tip {
        return (v, info);
    }
    let mut needed: BTreeSet<SaitoHash> = built.blocks[1 + p + a..first].iter().map(|x| x.hash).collect();
    let mut requested: BTreeSet<SaitoHash> = BTreeSet::new();

    // connect: A's static peer slot is index 1; B sees A as 10
    let mut panicked: Option<(String, String)> = None;
    macro_rules! chk {
        ($e:expr) => {
            if let HandlerOutcome::Panicked(s, m) = $e {
                panicked = Some((s, m));
            }
        };
    }
    chk!(na.net_event(NetworkEvent::PeerConnectionResult { result: Ok((1, None)) }));
    chk!(nb.net_event(NetworkEvent::PeerConnectionResult { result: Ok((10, None)) }));
    let mut a2b: VecDeque<Vec<u8>> = VecDeque::new();
    let mut b2a: VecDeque<Vec<u8>> = VecDeque::new();
    let mut fetches: Vec<(SaitoHash, u64, u64)> = vec![];
    let mut sched = case.schedule.iter().copied();
    let mut idle_ticks = 0;
    let max_steps = 1500;
    let mut last_completed_height = 0u64;
    let mut burst_left = case.burst_policy;
    let mut internal_streak = 0u32;
    let max_steps = if case.burst_policy > 0 { 6000 } else { max_steps };
    let mut max_steps = max_steps;
    let rounds = if b2 > 0 { 2 } else { 1 };
    for round in 1..=rounds {
        if round == 2 {
            if panicked.is_some() || na.tip().1 != peer_tip || nb.tip().1 != peer_tip {
                break; // the first round is judged below
            }
            // the connection drops, both sides grow, they connect again
            info.second_round = true;
            chk!(na.net_event(NetworkEvent::PeerDisconnected { peer_index: 1, disconnect_type: saito_core::core::io::network::PeerDisconnectType::ExternalDisconnect }));
            chk!(nb.net_event(NetworkEvent::PeerDisconnected { peer_index: 10, disconnect_type: saito_core::core::io::network::PeerDisconnectType::ExternalDisconnect }));
            let _ = na.pump();
            let _ = nb.pump();
            a2b.clear();
            b2a.clear();
            fetches.clear();
            na.take_outbox();
            nb.take_outbox();
            na.take_fetches();
            nb.take_fetches();
            for i in first..first + a2 {
                na.add_direct(built.blocks[i].clone());
            }
            for i in first + a2..first + a2 + b2 {
                nb.add_direct(built.blocks[i].clone());
            }
            peer_tip = built.blocks.last().unwrap().hash;
            if nb.tip().1 != peer_tip {
                return (v, info);
            }
            needed = built.blocks[first + a2..].iter().map(|x| x.hash).collect();
            requested.clear();
            chk!(na.net_event(NetworkEvent::PeerConnectionResult { result: Ok((1, None)) }));
            chk!(nb.net_event(NetworkEvent::PeerConnectionResult { result: Ok((10, None)) }));
            idle_ticks = 0;
            last_completed_height = 0;
            max_steps += info.steps;
        }
        while info.steps < max_steps && panicked.is_none() {
            info.steps += 1;
            for (_i, buf) in na.take_outbox() {
                a2b.push_back(buf);
            }
            for (_i, buf) in nb.take_outbox() {
                b2a.push_back(buf);
            }
            na.io.st.broadcast.lock().unwrap().clear();
            nb.io.st.broadcast.lock().unwrap().clear();
            for (h, peer, _u, id) in na.take_fetches() {
                requested.insert(h);
                info.fetches += 1;
                fetches.push((h, peer, id));
            }
            nb.take_fetches(); // B may try to fetch A's side blocks: not served (A's chain is the shorter one)
            // enabled actions
            let mut acts: Vec<u8> = vec![];
            if !a2b.is_empty() {
                acts.push(0);
            }
            if !b2a.is_empty() {
                acts.push(1);
            }
            if b2a.len() >= 2 {
                acts.push(4); // the newest message from the peer overtakes the older ones
            }
            for k in 0..fetches.len().min(4) {
                acts.push(10 + k as u8);
            }
            if !na.r_ver.is_empty() || !na.r_cons.is_empty() || !na.r_rout.is_empty() {
                acts.push(2);
            }
            if !nb.r_ver.is_empty() || !nb.r_cons.is_empty() || !nb.r_rout.is_empty() {
                acts.push(3);
            }
            if acts.is_empty() {
                // quiescent: a few timer ticks give retries a chance
                if idle_ticks >= 6 {
                    break;
                }
                idle_ticks += 1;
                clock.fetch_add(2_500, Ordering::SeqCst);
                chk!(na.routing_timer(2_500));
                chk!(nb.routing_timer(2_500));
                continue;
            }
            idle_ticks = 0;
            let pick = if case.burst_policy > 0 {
                // internal events first, but fairly: a parked block makes the node re-examine its queue
                // over and over, which must not starve the network side for ever
                if acts.contains(&2) && internal_streak < 30 {
                    internal_streak += 1;
                    2
                } else if acts.contains(&3) && internal_streak < 60 {
                    internal_streak += 1;
                    3
                } else if { internal_streak = 0; acts.contains(&0) } {
                    0
                } else if burst_left > 0 && !b2a.is_empty() {
                    burst_left -= 1;
                    if b2a.len() >= 2 {
                        4
                    } else {
                        1
                    }
                } else if !fetches.is_empty() {
                    // lowest height first
                    let k = (0..fetches.len().min(4)).min_by_key(|i| fetches[*i].2).unwrap();
                    if fetches.len() == 1 {
                        burst_left = case.burst_policy;
                    }
                    10 + k as u8
                } else {
                    burst_left = case.burst_policy;
                    acts[0]
                }
            } else {
                match sched.next() {
                    Some(s) => acts[(s as usize * acts.len()) >> 16],
                    None => acts[0],
                }
            };
            if std::env::var("VERIF_TRACE").is_ok() {
                let tag = |q: &VecDeque<Vec<u8>>| q.front().map(|b| b.first().copied().unwrap_or(255)).unwrap_or(254);
                eprintln!("step {} pick {} acts {:?} a2b {} (tag {}) b2a {} (tag {}) fetches {:?} tipA {}", info.steps, pick, acts, a2b.len(), tag(&a2b), b2a.len(), tag(&b2a), fetches.iter().map(|f| f.2).collect::<Vec<_>>(), na.tip().0);
            }
            match pick {
                0 => {
                    let buf = a2b.pop_front().unwrap();
                    chk!(nb.net_event(NetworkEvent::IncomingNetworkMessage { peer_index: 10, buffer: buf }));
                }
                1 => {
                    let buf = b2a.pop_front().unwrap();
                    chk!(na.net_event(NetworkEvent::IncomingNetworkMessage { peer_index: 1, buffer: buf }));
                }
                4 => {
                    let buf = b2a.pop_back().unwrap();
                    info.overtaking_messages += 1;
                    chk!(na.net_event(NetworkEvent::IncomingNetworkMessage { peer_index: 1, buffer: buf }));
                }
                2 => {
                    // one internal event of A (verification first, then consensus, then routing)
                    let o = na.pop_verification().or_else(|| na.pop_consensus()).or_else(|| na.pop_routing());
                    if let Some(o) = o {
                        chk!(o);
                    }
                    while na.r_miner.try_recv().is_ok() {}
                    while na.r_stat.try_recv().is_ok() {}
                }
                3 => {
                    let o = nb.pop_verification().or_else(|| nb.pop_consensus()).or_else(|| nb.pop_routing());
                    if let Some(o) = o {
                        chk!(o);
                    }
                    while nb.r_miner.try_recv().is_ok() {}
                    while nb.r_stat.try_recv().is_ok() {}
                }
                k => {
                    let (h, peer, id) = fetches.remove((k - 10) as usize);
                    if id < last_completed_height {
                        info.out_of_order_completions += 1;
                    }
                    last_completed_height = last_completed_height.max(id);
                    match by_hash.get(&h) {
                        Some(blk) => chk!(na.net_event(NetworkEvent::BlockFetched { block_hash: h, block_id: id, peer_index: peer, buffer: block_bytes(blk) })),
                        None => chk!(na.net_event(NetworkEvent::BlockFetchFailed { block_hash: h, block_id: id, peer_index: peer })),
                    }
                }
            }
        }
    }
    if let Some((site, msg)) = panicked {
        v.push((format!("C15|panic|site={site}"), format!("a handler panicked at {site} during synchronisation: {msg}")));
        return (v, info);
    }
    let ta = na.tip();
    let tb = nb.tip();
    info.converged = ta.1 == peer_tip && tb.1 == peer_tip;
    let ooo = info.out_of_order_completions > 0;
    let cfgs = format!("loading_completed={}{}", case.loading_completed, if info.second_round { "|second_round" } else { "" });
    if tb.1 != peer_tip {
        v.push((format!("C15|peer_left_its_chain|{cfgs}"), format!("the peer holding the longer chain moved away from its tip (now height {})", tb.0)));
    }
    if ta.1 != peer_tip {
        let key = if !case.loading_completed && ooo { "C15|orphan_path".to_string() } else { format!("C15|not_converged|{cfgs}|out_of_order={ooo}") };
        v.push((
            key,
            format!("prefix {p}, own suffix {a}, peer suffix {b}{}: at quiescence the syncing node is at height {} (hash {}), the peer at height {}; {} fetches, {} completed out of order, steps {}", if info.second_round { format!(" (second round after a reconnect: node +{a2}, peer +{b2} on the common tip)") } else { String::new() }, ta.0, hx(&ta.1), tb.0, info.fetches, info.out_of_order_completions, info.steps),
        ));
    }
    if !needed.is_subset(&requested) && ta.1 != peer_tip {
        v.push((format!("C15|needed_block_never_requested|{cfgs}"), format!("{} of the {} blocks the node lacks were never requested", needed.difference(&requested).count(), needed.len())));
    }
    (v, info)
}

// ---------------------------------------------------------------------------
// (c) a lite (SPV) node syncs through the ghost chain: the chain summary it receives must let it
//     learn every block of the peer's chain under the peer's real hash - indexed as a ghost block
//     or requested by exactly (hash, id)
// ---------------------------------------------------------------------------

#[derive(Debug, Clone, Serialize, Deserialize, PartialEq, Eq, Hash)]
pub struct LiteCase {
    /// peer chain length beyond genesis
    pub n: u8,
    /// bit i set: block i+1 (beyond genesis) carries a payment to the lite node's key
    pub pay_mask: u32,
    /// the peer grows by this many blocks after the first sync, then the lite node connects again
    pub grow: u8,
    pub pay_mask2: u8,
}

pub fn run_lite(case: &LiteCase) -> (Vec<(String, String)>, usize, usize) {
    let mut v: Vec<(String, String)> = vec![];
    let ncfg = NodeCfg { gp: 100, heartbeat: 100, social_stake: 0, loading_completed: false, prune: 8 };
    let n = (case.n as usize).clamp(1, 24);
    let grow = (case.grow as usize).min(6);
    const LITE: u8 = 3;
    let mut blocks = vec![];
    for i in 0..n + grow {
        let pays = if i < n { (case.pay_mask >> (i % 32)) & 1 == 1 } else { (case.pay_mask2 >> ((i - n) % 8)) & 1 == 1 };
        let mut b = bspec(i, None, 250);
        if pays {
            b.txs = vec![TxSpec { payer: 1, payee: LITE, amount_sel: 900, fee: 100, routers: vec![], with_path: false, max_inputs: 1, nft: false }];
        } else if i % 3 == 1 {
            b.txs = vec![TxSpec { payer: 0, payee: 1, amount_sel: 700, fee: 50, routers: vec![], with_path: false, max_inputs: 1, nft: false }];
        }
        blocks.push(b);
    }
    let spec = HistSpec { ncfg, treasury: 0, issuance: vec![(0, 5_000_000), (1, 6_000_000)], blocks, gt_policy: true };
    let built = block_on(build_history(&spec));
    if built.blocks.len() != 1 + n + grow {
        return (v, 0, 0);
    }
    let clock = Arc::new(AtomicU64::new(5_000_000));
    let mut lite = NetNode::new_with(LITE, ncfg, clock.clone(), 1, 10, MemIO::new(), true);
    let mut full = NetNode::new(2, ncfg, clock.clone(), 0, 10, MemIO::new());
    let _ = lite.init();
    let _ = full.init();
    for b in &built.blocks[..=n] {
        full.add_direct(b.clone());
    }
    let mut ghosts = 0usize;
    let mut fetched = 0usize;
    let mut known_upto = 0usize; // blocks of the peer's chain the lite node has been told about
    for round in 0..(if grow > 0 { 2 } else { 1 }) {
        if round == 1 {
            let _ = lite.net_event(NetworkEvent::PeerDisconnected { peer_index: 1, disconnect_type: saito_core::core::io::network::PeerDisconnectType::ExternalDisconnect });
            let _ = full.net_event(NetworkEvent::PeerDisconnected { peer_index: 10, disconnect_type: saito_core::core::io::network::PeerDisconnectType::ExternalDisconnect });
            let _ = lite.pump();
            let _ = full.pump();
            lite.take_outbox();
            full.take_outbox();
            lite.take_fetches();
            for b in &built.blocks[n + 1..] {
                full.add_direct(b.clone());
            }
            full.take_outbox();
            full.io.st.broadcast.lock().unwrap().clear();
        }
        let upto = if round == 0 { n } else { n + grow };
        if full.tip().1 != built.blocks[upto].hash {
            return (v, 0, 0);
        }
        let mut panicked: Option<(String, String)> = None;
        macro_rules! chk {
            ($e:expr) => {
                if let HandlerOutcome::Panicked(s, m) = $e {
                    panicked = Some((s, m));
                }
            };
        }
        chk!(lite.net_event(NetworkEvent::PeerConnectionResult { result: Ok((1, None)) }));
        chk!(full.net_event(NetworkEvent::PeerConnectionResult { result: Ok((10, None)) }));
        let mut requested: BTreeSet<(SaitoHash, u64)> = BTreeSet::new();
        let mut idle = 0;
        for _step in 0..400 {
            if panicked.is_some() {
                break;
            }
            let mut moved = false;
            for (_i, buf) in lite.take_outbox() {
                moved = true;
                chk!(full.net_event(NetworkEvent::IncomingNetworkMessage { peer_index: 10, buffer: buf }));
            }
            chk!(full.pump());
            for (_i, buf) in full.take_outbox() {
                moved = true;
                chk!(lite.net_event(NetworkEvent::IncomingNetworkMessage { peer_index: 1, buffer: buf }));
            }
            chk!(lite.pump());
            full.io.st.broadcast.lock().unwrap().clear();
            lite.io.st.broadcast.lock().unwrap().clear();
            full.take_fetches();
            for (h, peer, _u, id) in lite.take_fetches() {
                moved = true;
                requested.insert((h, id));
                // the peer serves the lite form of the block for the lite node's key
                match built.blocks.iter().find(|b| b.hash == h && b.id == id) {
                    Some(b) => {
                        let lb = b.generate_lite_block(vec![key(LITE).0]);
                        chk!(lite.net_event(NetworkEvent::BlockFetched { block_hash: h, block_id: id, peer_index: peer, buffer: lb.serialize_for_net(saito_core::core::consensus::block::BlockType::Full) }));
                    }
                    None => chk!(lite.net_event(NetworkEvent::BlockFetchFailed { block_hash: h, block_id: id, peer_index: peer })),
                }
            }
            if !moved {
                idle += 1;
                if idle > 4 {
                    break;
                }
                clock.fetch_add(2_500, Ordering::SeqCst);
                chk!(lite.routing_timer(2_500));
                chk!(full.routing_timer(2_500));
            } else {
                idle = 0;
            }
        }
        if let Some((site, msg)) = panicked {
            v.push((format!("C15|lite_sync_panic|site={site}"), format!("a handler panicked at {site} during the ghost-chain sync of a lite node: {msg}")));
            return (v, ghosts, fetched);
        }
        // every block of the peer's chain above what the lite node already knew: indexed under the
        // peer's hash, or requested by exactly (hash, id)
        let chain = block_on(lite.chain_lock.read());
        for b in &built.blocks[known_upto + 1..=upto] {
            let indexed = chain.blocks.contains_key(&b.hash);
            let asked = requested.contains(&(b.hash, b.id));
            if indexed {
                ghosts += 1;
            }
            if asked {
                fetched += 1;
            }
            if !indexed && !asked {
                v.push((
                    format!("C15|lite_node_misses_block|round={}", round + 1),
                    format!("after the ghost-chain exchange (peer chain of {} blocks beyond genesis, payments to the lite key in mask {:#x}) the lite node neither indexed block {} under the peer's hash nor requested it by (hash, id); it requested {} blocks", upto, case.pay_mask, b.id, requested.len()),
                ));
                break;
            }
        }
        // nothing it asks for may be unknown to the peer
        let real: BTreeSet<(SaitoHash, u64)> = built.blocks.iter().map(|b| (b.hash, b.id)).collect();
        if let Some(bad) = requested.iter().find(|r| !real.contains(r)) {
            v.push((format!("C15|lite_node_requests_unknown_block|round={}", round + 1), format!("the lite node requested block id {} under a hash the peer's chain does not contain", bad.1)));
        }
        drop(chain);
        if !v.is_empty() {
            break;
        }
        known_upto = upto;
    }
    (v, ghosts, fetched)
}

// ---------------------------------------------------------------------------
// (d) two peers hold the longer chain; one of them stops answering fetches after a while. The node
//     must still converge through the other one.
// ---------------------------------------------------------------------------

#[derive(Debug, Clone, Serialize, Deserialize, PartialEq, Eq, Hash)]
pub struct TwoPeerCase {
    /// blocks beyond genesis the node already has
    pub p: u8,
    /// blocks the peers have beyond that
    pub b: u8,
    /// the stalling peer answers this many fetches, then never again
    pub stall_after: u8,
    /// which of the two peers stalls (0/1) and which connects first (0/1)
    pub staller: u8,
    pub first: u8,
    pub batch: u8,
}

pub fn run_two_peers(case: &TwoPeerCase) -> (Vec<(String, String)>, usize) {
    let mut v: Vec<(String, String)> = vec![];
    let ncfg = NodeCfg { gp: 100, heartbeat: 100, social_stake: 0, loading_completed: true, prune: 8 };
    let (p, b) = ((case.p as usize).min(8), (case.b as usize).clamp(1, 20));
    let blocks: Vec<BlockSpec> = (0..p + b).map(|i| bspec(i, None, 250)).collect();
    let spec = HistSpec { ncfg, treasury: 0, issuance: vec![(0, 5_000_000), (1, 6_000_000)], blocks, gt_policy: true };
    let built = block_on(build_history(&spec));
    if built.blocks.len() != 1 + p + b {
        return (v, 0);
    }
    let by_hash: BTreeMap<SaitoHash, &Block> = built.blocks.iter().map(|x| (x.hash, x)).collect();
    let clock = Arc::new(AtomicU64::new(5_000_000));
    let mut na = NetNode::new(1, ncfg, clock.clone(), 2, case.batch.max(1) as usize, MemIO::new());
    let mut peers = [NetNode::new(2, ncfg, clock.clone(), 0, 10, MemIO::new()), NetNode::new(3, ncfg, clock.clone(), 0, 10, MemIO::new())];
    let _ = na.init();
    for q in peers.iter_mut() {
        let _ = q.init();
        for blk in &built.blocks {
            q.add_direct(blk.clone());
        }
    }
    for blk in &built.blocks[..=p] {
        na.add_direct(blk.clone());
    }
    let peer_tip = built.blocks.last().unwrap().hash;
    if peers[0].tip().1 != peer_tip || peers[1].tip().1 != peer_tip {
        return (v, 0);
    }
    let staller = (case.staller % 2) as usize;
    let mut answered_by_staller = 0usize;
    let mut fetched_from_honest = 0usize;
    let mut panicked: Option<(String, String)> = None;
    macro_rules! chk {
        ($e:expr) => {
            if let HandlerOutcome::Panicked(s, m) = $e {
                panicked = Some((s, m));
            }
        };
    }
    // the node's static peer slots are 1 and 2; each peer sees the node as connection 10
    let order: [usize; 2] = if case.first % 2 == 0 { [0, 1] } else { [1, 0] };
    for k in order {
        chk!(na.net_event(NetworkEvent::PeerConnectionResult { result: Ok((k as u64 + 1, None)) }));
        chk!(peers[k].net_event(NetworkEvent::PeerConnectionResult { result: Ok((10, None)) }));
    }
    let mut idle = 0;
    for _step in 0..4000 {
        if panicked.is_some() {
            break;
        }
        let mut moved = false;
        for (idx, buf) in na.take_outbox() {
            if idx == 1 || idx == 2 {
                moved = true;
                chk!(peers[idx as usize - 1].net_event(NetworkEvent::IncomingNetworkMessage { peer_index: 10, buffer: buf }));
            }
        }
        for k in 0..2 {
            chk!(peers[k].pump());
            for (_i, buf) in peers[k].take_outbox() {
                moved = true;
                chk!(na.net_event(NetworkEvent::IncomingNetworkMessage { peer_index: k as u64 + 1, buffer: buf }));
            }
            peers[k].io.st.broadcast.lock().unwrap().clear();
            peers[k].take_fetches();
        }
        chk!(na.pump());
        na.io.st.broadcast.lock().unwrap().clear();
        for (h, peer, _u, id) in na.take_fetches() {
            moved = true;
            let k = (peer as usize).saturating_sub(1).min(1);
            if k == staller {
                if answered_by_staller >= case.stall_after as usize {
                    continue; // never answered
                }
                answered_by_staller += 1;
            } else {
                fetched_from_honest += 1;
            }
            match by_hash.get(&h) {
                Some(blk) => chk!(na.net_event(NetworkEvent::BlockFetched { block_hash: h, block_id: id, peer_index: peer, buffer: block_bytes(blk) })),
                None => chk!(na.net_event(NetworkEvent::BlockFetchFailed { block_hash: h, block_id: id, peer_index: peer })),
            }
            chk!(na.pump());
        }
        if !moved {
            idle += 1;
            if idle > 8 {
                break;
            }
            clock.fetch_add(2_500, Ordering::SeqCst);
            chk!(na.routing_timer(2_500));
            for k in 0..2 {
                chk!(peers[k].routing_timer(2_500));
            }
        } else {
            idle = 0;
        }
    }
    if let Some((site, msg)) = panicked {
        v.push((format!("C15|two_peer_sync_panic|site={site}"), format!("a handler panicked at {site} while syncing from two peers: {msg}")));
        return (v, fetched_from_honest);
    }
    let ta = na.tip();
    if ta.1 != peer_tip {
        v.push((
            "C15|not_converged|two_peers_one_stalls".into(),
            format!("two peers hold the same chain (height {}), peer {} stops answering after {} fetches, the other answers everything: at quiescence the node is at height {}; {} blocks were fetched from the answering peer", built.blocks.last().unwrap().id, staller + 1, case.stall_after, ta.0, fetched_from_honest),
        ));
    }
    (v, fetched_from_honest)
}

fn eval_sync(c: &mut Ctx, case: &SyncCase, counting: bool) -> Vec<(String, String)> {
    let (v, info) = run_sync(case);
    if counting {
        c.evals(info.steps.max(1) as u64);
        if case.a >= 1 && info.out_of_order_completions > 0 {
            c.nontrivial(&digest(case));
        }
        if info.converged {
            c.class("converged");
        }
        if info.second_round {
            c.class(if case.a2 > 0 { "second_round_after_reconnect_with_own_fork" } else { "second_round_after_reconnect" });
        }
        if case.a >= 1 {
            c.class("node_must_reorganise");
        }
        if info.out_of_order_completions > 0 {
            c.class("out_of_order_fetch_completion");
        }
        if case.a >= 1 && info.out_of_order_completions > 0 {
            c.sample_class("ooo", json!({"case": case, "info": format!("{:?}", info)}));
        }
    }
    v
}

pub fn run(ctx: &mut Ctx) {
    ctx.rule = "(a) synthetic block rings up to 2e5 high (below/above every fork-id checkpoint) for two chains sharing a prefix of generated length; hashes constructed so that distinct blocks never agree on a whole checkpoint byte pair (the by-design 2^-16 fingerprint collision is outside the domain) while single bytes agree often; oracle: generate_last_shared_ancestor(peer tip, peer fork id) <= true fork height, peer ahead and behind. (b) two nodes built from the real routing/verification/consensus threads: every (prefix p, own suffix a, peer suffix b > a) with p,a,b <= N enumerated under in-order scheduling plus generated (p,a,b) up to 12/6/14 under generated schedules (which message, which of up to 4 pending fetches - any completion order -, which node's internal event next); block fetches are served from the peer's chain; a third of the generated cases (and 36 enumerated ones) have a second round: after convergence the connection drops, the node adds a2 blocks of its own and the peer b2 > a2 blocks on the common tip, and they connect again; oracle at quiescence (after timer ticks) of each round: the syncing node is on the peer's tip, the peer did not move, every block the node lacked was requested. (c) a lite (SPV) node with an empty chain connects to a full peer (chains of 1..24 blocks, payments to the lite key at every mask of positions for small chains, generated beyond; optionally a second connection after the peer grew): after the handshake / ghost-chain request / ghost chain exchange every block of the peer's chain must be indexed by the lite node under the peer's real hash or requested by exactly (hash, id), and nothing it requests may be unknown to the peer. (d) two full peers hold the same longer chain and one of them stops answering block fetches after 0..3 answers (either peer, either connection order, three chain lengths and batch sizes): the node must converge through the answering peer. non-trivial: (b) the node must reorganise (a >= 1) and at least one fetch completed out of order; (a) counted by distinct case".into();
    // (a)
    let n = ctx.tier.pick(3_000u32, 40_000);
    let mut r = runner(ctx.seed ^ 0xC15A, 1);
    let strat = arb_anc();
    let mut sampled = 0;
    for _ in 0..n {
        let c = strat.new_tree(&mut r).unwrap().current();
        ctx.eval();
        if c.fork_at < c.my_len.min(c.peer_len) {
            ctx.class(if c.peer_len >= c.my_len { "ancestor_peer_ahead" } else { "ancestor_peer_behind" });
            ctx.nontrivial(&("anc", c.fork_at, c.my_len, c.peer_len));
        }
        if sampled < 2 && c.my_len > 500 {
            sampled += 1;
            ctx.samples.push(json!({"sub": "ancestor", "case": c}));
        }
        for (k, w) in check_ancestor(&c) {
            ctx.violation(&k, w, json!({"check": "ancestor", "case": c}));
        }
    }
    // (b) exhaustive small triples, in-order schedule, both configurations
    let nmax = ctx.tier.pick(4u8, 6);
    let mut count = 0;
    for lc in [true, false] {
        for p in 0..=nmax {
            for a in 0..=nmax.min(4) {
                for b in (a + 1)..=(nmax + 1) {
                    let case = SyncCase { p, a, b, loading_completed: lc, schedule: vec![], batch: 3, burst_policy: 0, a2: 0, b2: 0 };
                    count += 1;
                    for (k, w) in eval_sync(ctx, &case, true) {
                        ctx.violation(&k, w, json!({"check": "sync_enumerated", "case": case}));
                    }
                }
            }
        }
    }
    // second rounds: after convergence the connection drops, node +a2 / peer +b2 on the common tip, reconnect
    for (p, a, b) in [(0u8, 0u8, 2u8), (3, 1, 3), (9, 2, 4), (12, 0, 9)] {
        for a2 in 0..=2u8 {
            for b2 in (a2 + 1)..=(a2 + 3) {
                let case = SyncCase { p, a, b, loading_completed: true, schedule: vec![], batch: 3, burst_policy: 0, a2, b2 };
                count += 1;
                for (k, w) in eval_sync(ctx, &case, true) {
                    ctx.violation(&k, w, json!({"check": "sync_second_round", "case": case}));
                }
            }
        }
    }
    ctx.extra.insert("enumerated_sync_triples".into(), json!(count));
    // directed schedules over longer catch-ups: constant and periodic scheduler choices (always the
    // first / last / middle enabled action, alternations) make announcements overtake each other
    // and fetches complete in a fixed skewed order, for every batch size
    let mut directed = 0;
    for b in [8u8, 14, 26] {
        for batch in [1u8, 2, 4, 10] {
            for pat in 0..6u16 {
                let schedule: Vec<u16> = (0..600u16)
                    .map(|i| match pat {
                        0 => 0xFFFF,
                        1 => 0x8000,
                        2 => if i % 2 == 0 { 0 } else { 0xFFFF },
                        3 => if i % 3 == 0 { 0x4000 } else { 0xC000 },
                        4 => if i % 5 < 3 { 0x3000 } else { 0xFFFF },
                        _ => (i.wrapping_mul(40503)) ^ 0x5A5A,
                    })
                    .collect();
                let case = SyncCase { p: 4, a: 3, b, loading_completed: true, schedule, batch, burst_policy: 0, a2: 0, b2: 0 };
                directed += 1;
                for (k, w) in eval_sync(ctx, &case, true) {
                    ctx.violation(&k, w, json!({"check": "sync_directed", "case": case}));
                }
            }
        }
    }
    // reversed announcement bursts: the peer's header hashes reach the node newest first, k at a
    // time, and everything pending is fetched (lowest height first) before the next burst
    for b in [8u8, 14, 26] {
        for batch in [1u8, 2, 4, 10] {
            for k in [1u8, 2, 3, 5, 8] {
                let case = SyncCase { p: 6, a: 4, b, loading_completed: true, schedule: vec![], batch, burst_policy: k, a2: 0, b2: 0 };
                directed += 1;
                for (key, w) in eval_sync(ctx, &case, true) {
                    ctx.violation(&key, w, json!({"check": "sync_reversed_bursts", "case": case}));
                }
            }
        }
    }
    ctx.extra.insert("directed_sync_schedules".into(), json!(directed));
    // (c) lite nodes: enumerated small chains x payment masks, generated larger ones
    let mut lite_cases = 0;
    for n in 1..=ctx.tier.pick(5u8, 7) {
        for mask in 0..(1u32 << n) {
            let case = LiteCase { n, pay_mask: mask, grow: if mask % 3 == 0 { 2 } else { 0 }, pay_mask2: (mask % 4) as u8 };
            let (viol, g, f) = run_lite(&case);
            ctx.evals((n as u64) + 1);
            lite_cases += 1;
            if g > 0 && f > 0 {
                ctx.class("lite_sync_with_ghost_blocks_and_fetches");
            }
            for (k, w) in viol {
                ctx.violation(&k, w, json!({"check": "lite_sync", "lite_case": case}));
            }
        }
    }
    ctx.extra.insert("enumerated_lite_syncs".into(), json!(lite_cases));
    // (d) two peers, one stalls
    let mut two = 0;
    for stall_after in 0..=3u8 {
        for staller in 0..2u8 {
            for first in 0..2u8 {
                for (p, b, batch) in [(0u8, 6u8, 2u8), (3, 12, 4), (5, 20, 10)] {
                    let case = TwoPeerCase { p, b, stall_after, staller, first, batch };
                    let (viol, f) = run_two_peers(&case);
                    ctx.evals(b as u64);
                    two += 1;
                    if f > 0 {
                        ctx.class("two_peers_one_stalls:blocks_fetched_from_the_answering_peer");
                    }
                    for (k, w) in viol {
                        ctx.violation(&k, w, json!({"check": "two_peers", "two_peer_case": case}));
                    }
                }
            }
        }
    }
    ctx.extra.insert("two_peer_syncs".into(), json!(two));
    let lstrat = (1u8..24, any::<u32>(), 0u8..6, any::<u8>()).prop_map(|(n, pay_mask, grow, pay_mask2)| LiteCase { n, pay_mask, grow, pay_mask2 });
    let lcases = ctx.tier.pick(60u32, 2_000);
    pbt_run(ctx, "lite_sync", lcases, lstrat, |c, case, counting| {
        let (v, g, f) = run_lite(case);
        if counting {
            c.evals(case.n as u64 + case.grow as u64 + 1);
            if g > 0 && f > 0 {
                c.class("lite_sync_with_ghost_blocks_and_fetches");
            }
            if case.grow > 0 {
                c.class("lite_sync_second_round");
            }
        }
        v
    });
    let strat = (0u8..12, 0u8..6, 1u8..14, prop_oneof![3 => Just(true), 1 => Just(false)], proptest::collection::vec(any::<u16>(), 0..120), prop_oneof![Just(1u8), Just(2u8), Just(4u8), Just(10u8)], prop_oneof![2 => Just((0u8, 0u8)), 1 => (0u8..4, 1u8..6)])
        .prop_map(|(p, a, b, loading_completed, schedule, batch, (a2, b2))| SyncCase { p, a, b: b.max(a + 1), loading_completed, schedule, batch, burst_policy: 0, a2, b2 });
    let cases = ctx.tier.pick(250u32, 8_000);
    pbt_run(ctx, "sync_schedules", cases, strat, |c, case, counting| eval_sync(c, case, counting));
}

pub fn replay(ctx: &mut Ctx, v: &serde_json::Value) -> bool {
    if let Some(tc) = v.get("two_peer_case").cloned() {
        if let Ok(c) = serde_json::from_value::<TwoPeerCase>(tc) {
            let (viol, _) = run_two_peers(&c);
            ctx.evals(c.b as u64);
            for (k, w) in viol {
                ctx.violation(&k, w, json!({"check": "two_peers", "two_peer_case": c}));
            }
            return true;
        }
    }
    let lc = v.get("lite_case").cloned().or_else(|| if v.get("check").and_then(|c| c.as_str()) == Some("lite_sync") { v.get("case").cloned() } else { None });
    if let Some(lc) = lc {
        if let Ok(c) = serde_json::from_value::<LiteCase>(lc) {
            let (viol, _, _) = run_lite(&c);
            ctx.evals(c.n as u64 + 1);
            for (k, w) in viol {
                ctx.violation(&k, w, json!({"check": "lite_sync", "lite_case": c}));
            }
            return true;
        }
    }
    let case = v.get("case").cloned().unwrap_or(v.clone());
    if let Ok(c) = serde_json::from_value::<SyncCase>(case.clone()) {
        for (k, w) in eval_sync(ctx, &c, true) {
            ctx.violation(&k, w, json!({"check": "sync", "case": c}));
        }
        return true;
    }
    if let Ok(c) = serde_json::from_value::<AncCase>(case) {
        ctx.eval();
        for (k, w) in check_ancestor(&c) {
            ctx.violation(&k, w, json!({"check": "ancestor", "case": c}));
        }
        return true;
    }
    false
}
