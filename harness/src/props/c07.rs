//! C07 — every block the node produces is one every node accepts (producer/validator agreement).
//! The chain state is reached by the producer's own production rounds from genesis.

use std::collections::BTreeSet;

use proptest::prelude::*;
use saito_core::core::consensus::block::{Block, BlockType};
use saito_core::core::consensus::transaction::TransactionType;
use saito_core::core::defs::*;
use serde::{Deserialize, Serialize};
use serde_json::json;

use crate::chain::*;
use crate::ctx::{block_on, catch, digest, pbt_run, Ctx, Outcome};
use crate::deliver::*;
use crate::props::c01::density_needs_gt;
use crate::refmodel::impl_utxo;
use crate::world::*;

#[derive(Debug, Clone, Serialize, Deserialize, PartialEq, Eq, Hash)]
pub struct Round {
    pub txs: Vec<TxSpec>,
    pub gt: bool,
    pub miner: u8,
    /// ms after the parent's timestamp
    pub dt: u32,
    /// before this round another producer confirms one half of a double spend whose other half
    /// (routed to this node) sits in this node's pool (staking off only)
    #[serde(default)]
    pub peer_conflict: Option<u8>,
    /// do not hand the producer a golden ticket even if the density rule demands one for the next
    /// block: the producer must then decline to bundle, not emit a block nobody accepts
    #[serde(default)]
    pub starve: bool,
}

#[derive(Debug, Clone, Serialize, Deserialize, PartialEq, Eq, Hash)]
pub struct Case {
    pub ncfg: NodeCfg,
    pub treasury: u64,
    pub issuance: Vec<(u8, u64)>,
    pub rounds: Vec<Round>,
    /// fees are shifted left by this many bits (issuance is generated accordingly): amounts and
    /// fees up to ~2^60
    #[serde(default)]
    pub fee_shift: u8,
    /// the first `late_start` blocks after genesis are produced by another node (key 1, through its
    /// own producer); the node under test produces its first block afterwards - possibly when the
    /// window has just wrapped and its funds still sit in the genesis block
    #[serde(default)]
    pub late_start: u8,
}

#[derive(Debug, Default)]
pub struct Info {
    pub produced: usize,
    pub late_start_blocks: usize,
    pub not_produced: usize,
    pub nontrivial_blocks: usize,
    pub with_atr: usize,
    pub with_payout: usize,
    pub with_path_work: usize,
    pub with_staking: usize,
    pub max_height: u64,
    pub atr_payout_blocks: usize,
    pub evictions_by_peer_block: usize,
    pub starved_rounds: usize,
}

fn features(b: &Block, staking: bool) -> String {
    let atr = b.transactions.iter().any(|t| t.transaction_type == TransactionType::ATR);
    format!(
        "atr={}|atr_payout={}|gt={}|staking={}",
        atr,
        b.total_payout_atr > 0,
        b.has_golden_ticket,
        staking
    )
}

pub fn run_case(case: &Case) -> (Vec<(String, String)>, Info) {
    let mut info = Info::default();
    let mut v: Vec<(String, String)> = vec![];
    let staking = case.ncfg.social_stake > 0;
    let mut p = Node::new(case.ncfg, 0);
    let mut peer = Node::new(case.ncfg, 4);
    let g = block_on(p.genesis(&case.issuance, case.treasury));
    if !matches!(guarded_add(&mut p, g.clone(), 64).0, StepOutcome::Result("added_lc")) {
        return (v, info);
    }
    let _ = guarded_add(&mut peer, g.clone(), 64);
    let me = key(0);
    if case.late_start > 0 {
        // another honest producer builds the first blocks
        let mut q = Node::new(case.ncfg, 1);
        let _ = guarded_add(&mut q, g.clone(), 64);
        for i in 0..case.late_start as u64 {
            let (_, tip_hash) = q.tip();
            let tip_ts = match q.chain.get_latest_block() {
                Some(b) => b.timestamp,
                None => break,
            };
            // past the producer's anti-fork delay (up to 5 s, derived from its key and the tip)
            let ts = tip_ts + 5_000 + 2 * case.ncfg.heartbeat;
            if !staking {
                let c = carrier_tx(&key(1), ts);
                block_on(q.mempool.add_transaction_if_validates(c, &q.chain));
            } else {
                // with staking the producer wants a pooled transaction: key 2 pays a small fee
                let (tip_id, _) = q.tip();
                let mut reserved = BTreeSet::new();
                let plan = TxPlan { payer: 2, payee: 3, amount: 1_000, fee: 1_000, max_inputs: 1, ts };
                if let Some(t) = build_honest_tx(&q, &plan, tip_id + 3, &mut reserved) {
                    block_on(q.mempool.add_transaction_if_validates(t, &q.chain));
                }
            }
            if density_needs_gt(&q) || i % 2 == 0 {
                if let Some(gt) = block_on(q.mine_gt(tip_hash, &key(2), 9_000 + i)) {
                    block_on(q.mempool.add_golden_ticket(gt));
                }
            }
            let gt_result = q.mempool.golden_tickets.get(&tip_hash).map(|(t, _)| t.clone());
            let blk = match catch(|| block_on(q.mempool.bundle_block(&q.chain, ts, gt_result, &q.cfg, &q.storage))) {
                Outcome::Returned(Some(b)) => b,
                other => {
                    if std::env::var("VERIF_TRACE").is_ok() {
                        eprintln!("late start block {i}: the other producer did not build a block: {:?}", other.panicked());
                    }
                    return (v, info); // the other producer is not this check's subject
                }
            };
            let a = guarded_add(&mut q, blk.clone(), 256).0;
            let b = guarded_add(&mut p, blk.clone(), 256).0;
            if std::env::var("VERIF_TRACE").is_ok() {
                eprintln!("late start block {i}: id {} on q {:?} on p {:?}", blk.id, a.name(), b.name());
            }
            let _ = guarded_add(&mut peer, blk, 256);
            if !matches!(a, StepOutcome::Result("added_lc")) || !matches!(b, StepOutcome::Result("added_lc")) {
                return (v, info);
            }
            info.late_start_blocks += 1;
        }
    }

    for (ri, r) in case.rounds.iter().enumerate() {
        if let (Some(sel), false) = (r.peer_conflict, staking) {
            let (tip_id, tip_hash) = p.tip();
            let tip_ts = match p.chain.get_latest_block() {
                Some(b) => b.timestamp,
                None => break,
            };
            let payer_idx = 1 + sel % 3;
            let payer = key(payer_idx);
            if let Some(s) = p.spendable_of(&payer.0, tip_id + 3).into_iter().find(|s| s.amount >= 4) {
                let fee = (s.amount / 2).min(1 + (sel as u64).wrapping_mul(7_919_113) % 60_000_000);
                // X: routed to this node, waits in its pool
                let mut x = tx_from_inputs(vec![s.clone()], vec![(key(3).0, s.amount - fee)], &payer, tip_ts + 1, vec![]);
                add_path(&mut x, &[payer_idx, 0]);
                let xsig = x.signature;
                let _ = catch(|| block_on(p.mempool.add_transaction_if_validates(x, &p.chain)));
                // Y: the conflicting spend, confirmed by another producer once no work is required
                let y = tx_from_inputs(vec![s.clone()], vec![(payer.0, s.amount - fee)], &payer, tip_ts + 2, vec![]);
                let pts = tip_ts + 2 * case.ncfg.heartbeat + 1;
                let gt = if density_needs_gt(&peer) { block_on(peer.mine_gt(tip_hash, &key(2), 7_000 + ri as u64)) } else { None };
                if let Ok(blk) = block_on(peer.make_block_as(&key(1), tip_hash, pts, vec![y], gt)) {
                    let (a, _) = guarded_add(&mut peer, blk.clone(), 256);
                    let (b, _) = guarded_add(&mut p, blk, 256);
                    if !matches!(a, StepOutcome::Result("added_lc")) || !matches!(b, StepOutcome::Result("added_lc")) {
                        return (v, info); // the other producer's block is not this check's subject
                    }
                    if std::env::var("VERIF_TRACE").is_ok() {
                        let t = p.chain.get_latest_block().unwrap();
                        eprintln!(
                            "round {ri} PEER block id {} txs {:?} treasury {} graveyard {} unpaid {} fees {} payout_atr {} supply {:?}",
                            t.id,
                            t.transactions.iter().map(|x| (tx_type_name(x.transaction_type), x.from.iter().map(|s| s.amount).sum::<u64>(), x.to.iter().map(|s| s.amount).sum::<u64>())).collect::<Vec<_>>(),
                            t.treasury,
                            t.graveyard,
                            t.previous_block_unpaid,
                            t.total_fees,
                            t.total_payout_atr,
                            crate::refmodel::impl_supply_u128(&p.chain, case.ncfg.gp)
                        );
                    }
                    if !p.mempool.transactions.contains_key(&xsig) {
                        info.evictions_by_peer_block += 1;
                    }
                }
            }
        }
        let (tip_id, tip_hash) = p.tip();
        let tip_ts = match p.chain.get_latest_block() {
            Some(b) => b.timestamp,
            None => break,
        };
        let ts = tip_ts + r.dt.max(1) as u64;
        // pool content through the pool's public entry
        let mut reserved: BTreeSet<SaitoUTXOSetKey> = BTreeSet::new();
        let mut submitted = 0;
        for (n, t) in r.txs.iter().enumerate() {
            let payer_idx = if staking && t.payer == 0 { 1 } else { t.payer };
            let payer = key(payer_idx);
            let bal: u128 = p
                .spendable_of(&payer.0, tip_id + 3) // two blocks of margin like the wallet
                .iter()
                .filter(|s| !reserved.contains(&s.utxoset_key))
                .map(|s| s.amount as u128)
                .sum();
            if bal == 0 {
                continue;
            }
            let bal = bal.min(u64::MAX as u128) as u64;
            let fee = t.fee.checked_shl(case.fee_shift as u32).unwrap_or(u64::MAX).min(bal);
            let amount = (((bal - fee) as u128 * t.amount_sel as u128) >> 16) as u64;
            let plan = TxPlan {
                payer: payer_idx,
                payee: t.payee,
                amount,
                fee,
                max_inputs: t.max_inputs as usize,
                ts: ts + n as u64,
            };
            let built_tx = if t.nft { build_honest_nft_tx(&p, &plan, tip_id + 3, &mut reserved) } else { build_honest_tx(&p, &plan, tip_id + 3, &mut reserved) };
            if let Some(mut tx) = built_tx {
                if t.with_path {
                    let mut path = vec![payer_idx];
                    for x in &t.routers {
                        if *path.last().unwrap() != *x && *x != 0 {
                            path.push(*x);
                        }
                    }
                    if *path.last().unwrap() != 0 {
                        path.push(0);
                    }
                    if path.len() >= 2 {
                        add_path(&mut tx, &path);
                    }
                }
                let out = catch(|| block_on(p.mempool.add_transaction_if_validates(tx, &p.chain)));
                if let Outcome::Panicked(site, msg) = out {
                    v.push((format!("C07|pool_panic|site={site}"), format!("pool admission panicked at {site}: {msg}")));
                    return (v, info);
                }
                submitted += 1;
            }
        }
        if submitted == 0 && !staking {
            // the producer needs at least one pooled transaction
            let c = carrier_tx(&me, ts);
            block_on(p.mempool.add_transaction_if_validates(c, &p.chain));
        }
        let want_gt = r.gt || (density_needs_gt(&p) && !r.starve);
        if r.starve && !r.gt && density_needs_gt(&p) {
            info.starved_rounds += 1;
        }
        if want_gt {
            if let Some(gt) = block_on(p.mine_gt(tip_hash, &key(r.miner), ri as u64 + 1)) {
                block_on(p.mempool.add_golden_ticket(gt));
            }
        }
        let gt_result = p.mempool.golden_tickets.get(&tip_hash).map(|(t, _)| t.clone());
        // the node's own producer
        let produced = catch(|| block_on(p.mempool.bundle_block(&p.chain, ts, gt_result, &p.cfg, &p.storage)));
        let block = match produced {
            Outcome::Panicked(site, msg) => {
                v.push((format!("C07|producer_panic|site={site}"), format!("bundle_block panicked at {site}: {msg}")));
                return (v, info);
            }
            Outcome::Returned(None) => {
                info.not_produced += 1;
                // drop whatever is left so that rounds stay independent
                continue;
            }
            Outcome::Returned(Some(b)) => b,
        };
        info.produced += 1;
        let feat = features(&block, staking);
        let has_fee_tx = block.transactions.iter().any(|t| t.transaction_type == TransactionType::Normal && t.total_fees > 0);
        let has_atr = block.transactions.iter().any(|t| t.transaction_type == TransactionType::ATR);
        let has_path = block.transactions.iter().any(|t| !t.path.is_empty());
        if has_fee_tx && (block.has_golden_ticket || has_atr || has_path) {
            info.nontrivial_blocks += 1;
        }
        if has_atr {
            info.with_atr += 1;
        }
        if block.total_payout_atr > 0 {
            info.atr_payout_blocks += 1;
        }
        if block.has_fee_transaction {
            info.with_payout += 1;
        }
        if block.total_work > 0 {
            info.with_path_work += 1;
        }
        if block.has_staking_transaction {
            info.with_staking += 1;
        }
        info.max_height = info.max_height.max(block.id);
        // the other node gets it over the wire
        let wire = match Block::deserialize_from_net(&block.serialize_for_net(BlockType::Full)) {
            Ok(mut w) => {
                let _ = w.generate();
                w
            }
            Err(_) => {
                v.push(("C07|produced_block_not_decodable".into(), "the produced block does not survive the wire format".into()));
                return (v, info);
            }
        };
        if std::env::var("VERIF_TRACE").is_ok() {
            eprintln!(
                "round {ri} PRODUCED id {} txs {:?} treasury {} graveyard {} unpaid {} fees {} fees_atr {} payout_atr {} avg_nolan_rebroadcast {}",
                block.id,
                block.transactions.iter().map(|x| (tx_type_name(x.transaction_type), x.from.iter().map(|s| (s.block_id, s.amount)).collect::<Vec<_>>(), x.to.iter().map(|s| s.amount).collect::<Vec<_>>())).collect::<Vec<_>>(),
                block.treasury,
                block.graveyard,
                block.previous_block_unpaid,
                block.total_fees,
                block.total_fees_atr,
                block.total_payout_atr,
                block.avg_nolan_rebroadcast_per_block
            );
        }
        let (rp, _) = guarded_add(&mut p, block.clone(), 256);
        match &rp {
            StepOutcome::Result("added_lc") => {}
            StepOutcome::Panicked(site, msg) => {
                v.push((format!("C07|own_block_aborts_producer|site={}|{}", site, feat), format!("round {}: the producer panicked at {} adding its own block id {}: {}", ri, site, block.id, msg)));
                return (v, info);
            }
            other => {
                v.push((format!("C07|own_block_rejected|{}", feat), format!("round {}: the producer's own block id {} (txs {}) was not accepted by the producer: {}", ri, block.id, block.transactions.len(), other.name())));
                return (v, info);
            }
        }
        if std::env::var("VERIF_TRACE").is_ok() {
            let t = p.chain.get_latest_block().unwrap();
            eprintln!(
                "round {ri} own block id {} txs {:?} treasury {} graveyard {} unpaid {} fees {} payout_atr {} supply {:?}",
                t.id,
                t.transactions.iter().map(|x| (tx_type_name(x.transaction_type), x.from.iter().map(|s| s.amount).sum::<u64>(), x.to.iter().map(|s| s.amount).sum::<u64>())).collect::<Vec<_>>(),
                t.treasury,
                t.graveyard,
                t.previous_block_unpaid,
                t.total_fees,
                t.total_payout_atr,
                crate::refmodel::impl_supply_u128(&p.chain, case.ncfg.gp)
            );
        }
        let (rv, _) = guarded_add(&mut peer, wire, 256);
        if !matches!(rv, StepOutcome::Result("added_lc")) {
            v.push((format!("C07|peer_rejects|{}", feat), format!("round {}: block id {} accepted by its producer but not by a second node holding the same chain: {}", ri, block.id, rv.name())));
            return (v, info);
        }
        if p.tip() != peer.tip() || impl_utxo(&p.chain) != impl_utxo(&peer.chain) {
            v.push((format!("C07|state_diverges|{}", feat), format!("round {}: producer and second node disagree on tip/utxoset after block id {}", ri, block.id)));
            return (v, info);
        }
    }
    (v, info)
}

fn eval(c: &mut Ctx, case: &Case, counting: bool) -> Vec<(String, String)> {
    let (v, info) = run_case(case);
    if counting {
        c.evals(info.produced.max(1) as u64);
        if info.nontrivial_blocks > 0 {
            c.nontrivial(&digest(case));
        }
        for (n, k) in [
            (info.with_atr, "produced_with_rebroadcast"),
            (info.atr_payout_blocks, "produced_with_treasury_payout"),
            (info.with_payout, "produced_with_fee_payout"),
            (info.with_path_work, "produced_with_routing_work"),
            (info.with_staking, "produced_with_staking_tx"),
            (info.not_produced, "round_without_production"),
            (info.evictions_by_peer_block, "pooled_tx_evicted_by_other_producers_block"),
            (info.starved_rounds, "round_without_the_ticket_the_density_rule_needs"),
        ] {
            if n > 0 {
                *c.classes.entry(k.to_string()).or_insert(0) += n as u64;
            }
        }
        if case.ncfg.social_stake > 0 && info.produced > 0 {
            c.class("staking_on_history");
        }
        if case.ncfg.heartbeat >= 5000 {
            c.class("heartbeat_5000");
        }
        if info.late_start_blocks > 0 {
            c.class("first_own_block_after_another_producers_run(window_edge)");
        }
        if case.fee_shift > 0 {
            c.class("amounts_and_fees_up_to_2^60");
        }
        if info.max_height > case.ncfg.gp + 1 {
            c.class("history_past_window_wrap");
        }
        if info.with_atr > 0 && info.with_path_work > 0 {
            c.sample_class("atr+work", json!({"case": case, "info": format!("{:?}", info)}));
        } else if info.with_staking > 0 {
            c.sample_class("staking", json!({"case": case, "info": format!("{:?}", info)}));
        }
    }
    v
}

pub fn arb_round() -> impl Strategy<Value = Round> {
    (
        proptest::collection::vec(arb_txspec(), 0..5),
        prop_oneof![2 => Just(false), 1 => Just(true)],
        0u8..4,
        prop_oneof![3 => 5_000u32..6_000, 2 => 6_000u32..20_000, 2 => 200u32..5_000, 1 => 1u32..200],
        prop_oneof![5 => Just(None), 1 => any::<u8>().prop_map(Some)],
        prop_oneof![3 => Just(false), 1 => Just(true)],
    )
        .prop_map(|(txs, gt, miner, dt, peer_conflict, starve)| Round { txs, gt, miner, dt, peer_conflict, starve })
}

pub fn arb_case(max_rounds: usize) -> impl Strategy<Value = Case> {
    (
        prop_oneof![2 => Just(4u64), 2 => Just(5u64), 3 => Just(6u64), 2 => Just(8u64), 1 => Just(12u64), 1 => Just(100u64)],
        prop_oneof![2 => Just(100u64), 1 => Just(5000u64)],
        prop_oneof![3 => Just(0u64), 1 => Just(2_000_000u64)],
        prop_oneof![2 => Just(0u64), 1 => 1_000_000u64..1_000_000_000_000u64],
        proptest::collection::vec(arb_round(), 2..max_rounds),
        prop_oneof![4 => Just(0u8), 1 => Just(30u8)],
        prop_oneof![6 => Just(0i8), 1 => Just(-1i8), 1 => Just(0i8 + 100), 1 => Just(101i8)],
    )
        .prop_map(|(gp, heartbeat, social_stake, treasury, rounds, fee_shift, late)| Case {
            ncfg: NodeCfg {
                gp,
                heartbeat,
                social_stake,
                loading_completed: true,
                prune: 8,
            },
            treasury,
            issuance: [(0u8, 900_000_000u64), (0, 800_000_000), (0, 50_000_000), (1, 500_000_000), (2, 600_000_000), (3, 70_000_000), (1, 3_000), (2, 40)].iter().map(|(k, a)| (*k, a << fee_shift)).collect(),
            rounds,
            fee_shift,
            // 0, or gp-1 / gp / gp+1 blocks by another producer first (only with short windows)
            late_start: if late == 0 || gp > 12 { 0 } else { (gp as i64 + (late as i64 - 100).clamp(-1, 1)) as u8 },
        })
}

pub fn run(ctx: &mut Ctx) {
    ctx.rule = "from genesis, 2..N production rounds on the node's own tip: pool content submitted through Mempool::add_transaction_if_validates (several payers, fees 0..4e8 - in one history of five amounts and fees are scaled by 2^30, i.e. up to ~2^60 -, routing paths of 0..3 valid hops ending at the producer), golden ticket present/absent (added when the density rule demands it), timestamp 1 ms .. 20 s after the parent, then the node's own producer Mempool::bundle_block (=> Block::create); configurations: gp in {4,5,6,8,12,100}, heartbeat in {100,5000}, staking off/on (social stake 2e6), genesis treasury 0 or up to 1e12 (rebroadcast payout multiplier > 1 and 5% cap). oracle (differential): every produced block is accepted as the new tip by the producer itself and, after crossing the wire format, by a second independent node holding the same chain, and both end with identical tip and utxoset. evaluations = blocks produced. non-trivial = history with a produced block carrying >= 1 fee-paying transaction and (golden ticket or rebroadcast or routing path); distinct by case digest".into();
    let cases = ctx.tier.pick(800u32, 10_000);
    pbt_run(ctx, "production_rounds", cases, arb_case(26), |c, case, counting| eval(c, case, counting));
}

pub fn replay(ctx: &mut Ctx, v: &serde_json::Value) -> bool {
    let case: Case = match serde_json::from_value(v.get("case").cloned().unwrap_or(v.clone())) {
        Ok(c) => c,
        Err(_) => return false,
    };
    for (k, w) in eval(ctx, &case, true) {
        ctx.violation(&k, w, json!({"check": "replay", "case": case}));
    }
    true
}
