//! C09 — wire and disk formats round-trip and preserve identity.

use proptest::prelude::*;
use saito_core::core::consensus::block::{Block, BlockType, BLOCK_HEADER_SIZE};
use saito_core::core::consensus::hop::{Hop, HOP_SIZE};
use saito_core::core::consensus::peers::peer_service::PeerService;
use saito_core::core::consensus::slip::{Slip, SLIP_SIZE};
use saito_core::core::consensus::transaction::{Transaction, TransactionType};
use saito_core::core::consensus::wallet::Wallet;
use saito_core::core::io::storage::Storage;
use saito_core::core::msg::api_message::ApiMessage;
use saito_core::core::msg::block_request::BlockchainRequest;
use saito_core::core::msg::ghost_chain_sync::GhostChainSync;
use saito_core::core::msg::handshake::{HandshakeChallenge, HandshakeResponse};
use saito_core::core::msg::message::Message;
use saito_core::core::process::version::Version;
use saito_core::core::util::balance_snapshot::BalanceSnapshot;
use saito_core::core::util::crypto::verify_signature;
use saito_core::core::util::serialize::Serialize as SaitoSerialize;
use serde::{Deserialize, Serialize};
use serde_json::json;

use crate::chain::{self, HistSpec};
use crate::ctx::{block_on, catch, pbt_run, Ctx, Outcome, Tier};
use crate::gen::*;
use crate::world::{key, MemIO, Node};

type V = Vec<(String, String)>;

fn slip_eq(a: &Slip, b: &Slip) -> bool {
    a.public_key == b.public_key
        && a.amount == b.amount
        && a.block_id == b.block_id
        && a.tx_ordinal == b.tx_ordinal
        && a.slip_index == b.slip_index
        && a.slip_type == b.slip_type
}
fn hop_eq(a: &Hop, b: &Hop) -> bool {
    a.from == b.from && a.to == b.to && a.sig == b.sig
}
pub fn tx_eq(a: &Transaction, b: &Transaction) -> bool {
    a.timestamp == b.timestamp
        && a.from.len() == b.from.len()
        && a.to.len() == b.to.len()
        && a.from.iter().zip(&b.from).all(|(x, y)| slip_eq(x, y))
        && a.to.iter().zip(&b.to).all(|(x, y)| slip_eq(x, y))
        && a.data == b.data
        && a.transaction_type == b.transaction_type
        && a.txs_replacements == b.txs_replacements
        && a.signature == b.signature
        && a.path.len() == b.path.len()
        && a.path.iter().zip(&b.path).all(|(x, y)| hop_eq(x, y))
}
fn header_nums(b: &Block) -> Vec<u64> {
    vec![
        b.id,
        b.timestamp,
        b.graveyard,
        b.treasury,
        b.burnfee,
        b.difficulty,
        b.avg_total_fees,
        b.avg_fee_per_byte,
        b.avg_nolan_rebroadcast_per_block,
        b.previous_block_unpaid,
        b.avg_total_fees_new,
        b.avg_total_fees_atr,
        b.avg_payout_routing,
        b.avg_payout_mining,
        b.avg_payout_treasury,
        b.avg_payout_graveyard,
        b.avg_payout_atr,
        b.total_payout_routing,
        b.total_payout_mining,
        b.total_payout_treasury,
        b.total_payout_graveyard,
        b.total_payout_atr,
        b.total_fees,
        b.total_fees_new,
        b.total_fees_atr,
        b.fee_per_byte,
        b.total_fees_cumulative,
    ]
}
pub fn header_eq(a: &Block, b: &Block) -> bool {
    header_nums(a) == header_nums(b)
        && a.previous_block_hash == b.previous_block_hash
        && a.creator == b.creator
        && a.merkle_root == b.merkle_root
        && a.signature == b.signature
}
pub fn block_eq(a: &Block, b: &Block) -> bool {
    header_eq(a, b)
        && a.transactions.len() == b.transactions.len()
        && a.transactions.iter().zip(&b.transactions).all(|(x, y)| tx_eq(x, y))
}

fn fail(v: &mut V, fmt: &str, what: &str) {
    v.push((format!("C09|format={fmt}|{what}"), format!("{fmt}: {what}")));
}

fn panic_v(fmt: &str, site: &str, msg: &str) -> V {
    vec![(
        format!("C09|format={fmt}|panic={site}"),
        format!("{fmt}: round trip of a valid value panicked at {site}: {msg}"),
    )]
}

// --- individual round trips -------------------------------------------------

fn rt_slip(g: &GSlip) -> V {
    let mut v = vec![];
    let s = g.to_slip();
    let e = s.serialize_for_net();
    if e.len() != SLIP_SIZE {
        fail(&mut v, "slip", "size");
    }
    match Slip::deserialize_from_net(&e) {
        Ok(d) => {
            if !slip_eq(&s, &d) {
                fail(&mut v, "slip", "decode_ne");
            }
            if d.serialize_for_net() != e {
                fail(&mut v, "slip", "reencode_ne");
            }
            if d.get_utxoset_key() != s.get_utxoset_key() {
                fail(&mut v, "slip", "utxokey_ne");
            }
            // utxo key is itself a format: parse(key) == slip
            match Slip::parse_slip_from_utxokey(&s.get_utxoset_key()) {
                Ok(p) => {
                    if !slip_eq(&p, &s) {
                        fail(&mut v, "utxokey", "decode_ne");
                    }
                }
                Err(_) => fail(&mut v, "utxokey", "decode_err"),
            }
        }
        Err(_) => fail(&mut v, "slip", "decode_err"),
    }
    v
}

fn rt_hop(g: &GHop) -> V {
    let mut v = vec![];
    let h = g.to_hop();
    let e = h.serialize_for_net();
    if e.len() != HOP_SIZE {
        fail(&mut v, "hop", "size");
    }
    match Hop::deserialize_from_net(&e) {
        Ok(d) => {
            if !hop_eq(&h, &d) {
                fail(&mut v, "hop", "decode_ne");
            }
            if d.serialize_for_net() != e {
                fail(&mut v, "hop", "reencode_ne");
            }
        }
        Err(_) => fail(&mut v, "hop", "decode_err"),
    }
    v
}

#[derive(Debug, Clone, Serialize, Deserialize, PartialEq, Eq, Hash)]
pub struct GSignedTx {
    pub tx: GTx,
    /// Some(i): replace from[0].pk by ring key i and sign with it (a really valid signature)
    pub signer: Option<u8>,
}

fn build_signed(g: &GSignedTx) -> Transaction {
    let mut t = g.tx.to_tx();
    if let Some(i) = g.signer {
        let k = key(i);
        if t.from.is_empty() {
            t.from.push(Slip::default());
        }
        t.from[0].public_key = k.0;
        t.sign(&k.1);
    }
    t
}

fn sig_ok(t: &Transaction) -> bool {
    match (&t.hash_for_signature, t.from.first()) {
        (Some(h), Some(f)) => verify_signature(h, &t.signature, &f.public_key),
        _ => false,
    }
}

fn rt_tx(g: &GSignedTx) -> V {
    let mut v = vec![];
    let mut t = build_signed(g);
    let e = t.serialize_for_net();
    if e.len() != t.get_serialized_size() {
        fail(&mut v, "transaction", "size");
    }
    match Transaction::deserialize_from_net(&e) {
        Ok(mut d) => {
            if !tx_eq(&t, &d) {
                fail(&mut v, "transaction", "decode_ne");
            }
            if d.serialize_for_net() != e {
                fail(&mut v, "transaction", "reencode_ne");
            }
            let pk = key(0).0;
            t.generate(&pk, 3, 7);
            d.generate(&pk, 3, 7);
            if t.hash_for_signature != d.hash_for_signature {
                fail(&mut v, "transaction", "hash_ne");
            }
            if sig_ok(&t) != sig_ok(&d) {
                fail(&mut v, "transaction", "sigverdict_ne");
            }
            if g.signer.is_some() && t.transaction_type != TransactionType::SPV && !sig_ok(&d) {
                fail(&mut v, "transaction", "valid_sig_lost");
            }
            if (t.total_in, t.total_out, t.total_fees) != (d.total_in, d.total_out, d.total_fees) {
                fail(&mut v, "transaction", "totals_ne");
            }
        }
        Err(_) => fail(&mut v, "transaction", "decode_err"),
    }
    v
}

fn rt_block(g: &GBlock) -> V {
    let mut v = vec![];
    let mut b = g.to_block();
    let e = b.serialize_for_net(BlockType::Full);
    let predicted: usize = BLOCK_HEADER_SIZE
        + b.transactions.iter().map(|t| t.get_serialized_size()).sum::<usize>();
    if e.len() != predicted {
        fail(&mut v, "block", "size");
    }
    match Block::deserialize_from_net(&e) {
        Ok(mut d) => {
            if !block_eq(&b, &d) {
                fail(&mut v, "block", "decode_ne");
            }
            if d.serialize_for_net(BlockType::Full) != e {
                fail(&mut v, "block", "reencode_ne");
            }
            // identity: generate() on both gives the same hash / pre-hash / merkle root
            b.created_hashmap_of_slips_spent_this_block = true;
            d.created_hashmap_of_slips_spent_this_block = true;
            let r1 = b.generate().is_ok();
            let r2 = d.generate().is_ok();
            if r1 != r2 || b.hash != d.hash || b.pre_hash != d.pre_hash || b.merkle_root != d.merkle_root {
                fail(&mut v, "block", "hash_ne");
            }
            if verify_signature(&b.pre_hash, &b.signature, &b.creator)
                != verify_signature(&d.pre_hash, &d.signature, &d.creator)
            {
                fail(&mut v, "block", "sigverdict_ne");
            }
        }
        Err(_) => fail(&mut v, "block", "decode_err"),
    }
    // header-only form
    let h = b.serialize_for_net(BlockType::Header);
    if h.len() != BLOCK_HEADER_SIZE {
        fail(&mut v, "block_header", "size");
    }
    match Block::deserialize_from_net(&h) {
        Ok(d) => {
            if !header_eq(&b, &d) {
                fail(&mut v, "block_header", "decode_ne");
            }
            if !d.transactions.is_empty() {
                fail(&mut v, "block_header", "has_txs");
            }
            if d.serialize_for_net(BlockType::Header) != h {
                fail(&mut v, "block_header", "reencode_ne");
            }
        }
        Err(_) => fail(&mut v, "block_header", "decode_err"),
    }
    // lite form: what a light client is served for a key list, received over the wire
    let keylist: Vec<saito_core::core::defs::SaitoPublicKey> = b.transactions.iter().step_by(2).filter_map(|t| t.to.first().map(|s| s.public_key)).take(2).collect();
    // (blocks that already carry placeholders or a replacement count other than 1 are not lite-served
    // by a full node; a large count also makes the merkle expansion arbitrarily expensive - F35)
    if b.transactions.iter().any(|t| t.transaction_type == TransactionType::SPV || t.txs_replacements != 1) {
        return v;
    }
    // the lite block's commitment is recomputed from the transactions, so the full block needs a
    // commitment that matches them (the generated one is arbitrary): take the computed root
    let mut b = b.clone();
    b.merkle_root = [0; 32];
    b.created_hashmap_of_slips_spent_this_block = true;
    let _ = b.generate();
    let full_hash = b.hash;
    match crate::ctx::catch(|| b.generate_lite_block(keylist)) {
        crate::ctx::Outcome::Panicked(_, _) => fail(&mut v, "lite_block", "generate_panics"),
        crate::ctx::Outcome::Returned(lite) => {
            let w = lite.serialize_for_net(BlockType::Full);
            match Block::deserialize_from_net(&w) {
                Ok(mut d) => {
                    if !header_eq(&b, &d) {
                        fail(&mut v, "lite_block", "header_ne");
                    }
                    if d.serialize_for_net(BlockType::Full) != w {
                        fail(&mut v, "lite_block", "reencode_ne");
                    }
                    d.created_hashmap_of_slips_spent_this_block = true;
                    let _ = d.generate();
                    if d.hash != full_hash || d.pre_hash != b.pre_hash {
                        fail(&mut v, "lite_block", "hash_ne");
                    }
                    if verify_signature(&b.pre_hash, &b.signature, &b.creator) != verify_signature(&d.pre_hash, &d.signature, &d.creator) {
                        fail(&mut v, "lite_block", "sigverdict_ne");
                    }
                }
                Err(_) => fail(&mut v, "lite_block", "decode_err"),
            }
        }
    }
    v
}

#[derive(Debug, Clone, Serialize, Deserialize, PartialEq, Eq, Hash)]
pub enum GMsg {
    Challenge(Vec<u8>),
    Response {
        pk: Vec<u8>,
        sig: Vec<u8>,
        lite: bool,
        url: String,
        challenge: Vec<u8>,
        services: Vec<(String, String, String)>,
        wv: (u8, u8, u16),
        cv: (u8, u8, u16),
    },
    Block(GBlock),
    Tx(GTx),
    ChainRequest(Vec<u8>), // 72 bytes
    HeaderHash(Vec<u8>, u64),
    Ping,
    Services(Vec<(String, String, String)>),
    Ghost {
        start: Vec<u8>,
        rows: Vec<(Vec<u8>, Vec<u8>, u64, u64, bool, bool)>,
    },
    GhostRequest(u64, Vec<u8>, Vec<u8>),
    App(u8, u32, Vec<u8>), // kind 12/13/14
    KeyList(Vec<Vec<u8>>),
}

fn a32(v: &[u8]) -> [u8; 32] {
    let mut a = [0u8; 32];
    a[..v.len().min(32)].copy_from_slice(&v[..v.len().min(32)]);
    a
}
fn a33(v: &[u8]) -> [u8; 33] {
    let mut a = [0u8; 33];
    a[..v.len().min(33)].copy_from_slice(&v[..v.len().min(33)]);
    a
}
fn a64(v: &[u8]) -> [u8; 64] {
    let mut a = [0u8; 64];
    a[..v.len().min(64)].copy_from_slice(&v[..v.len().min(64)]);
    a
}
fn services(s: &[(String, String, String)]) -> Vec<PeerService> {
    s.iter()
        .map(|(a, b, c)| PeerService {
            service: a.clone(),
            domain: b.clone(),
            name: c.clone(),
        })
        .collect()
}

pub fn to_message(g: &GMsg) -> Message {
    match g {
        GMsg::Challenge(c) => Message::HandshakeChallenge(HandshakeChallenge { challenge: a32(c) }),
        GMsg::Response {
            pk,
            sig,
            lite,
            url,
            challenge,
            services: s,
            wv,
            cv,
        } => Message::HandshakeResponse(HandshakeResponse {
            public_key: a33(pk),
            signature: a64(sig),
            is_lite: *lite,
            block_fetch_url: url.clone(),
            challenge: a32(challenge),
            services: services(s),
            wallet_version: Version::new(wv.0, wv.1, wv.2),
            core_version: Version::new(cv.0, cv.1, cv.2),
        }),
        GMsg::Block(b) => Message::Block(b.to_block()),
        GMsg::Tx(t) => Message::Transaction(t.to_tx()),
        GMsg::ChainRequest(b) => {
            let mut buf = b.clone();
            buf.resize(72, 0);
            Message::BlockchainRequest(BlockchainRequest::deserialize(&buf).unwrap())
        }
        GMsg::HeaderHash(h, id) => Message::BlockHeaderHash(a32(h), *id),
        GMsg::Ping => Message::Ping(),
        GMsg::Services(s) => Message::Services(services(s)),
        GMsg::Ghost { start, rows } => Message::GhostChain(GhostChainSync {
            start: a32(start),
            prehashes: rows.iter().map(|r| a32(&r.0)).collect(),
            previous_block_hashes: rows.iter().map(|r| a32(&r.1)).collect(),
            block_ids: rows.iter().map(|r| r.2).collect(),
            block_ts: rows.iter().map(|r| r.3).collect(),
            txs: rows.iter().map(|r| r.4).collect(),
            gts: rows.iter().map(|r| r.5).collect(),
        }),
        GMsg::GhostRequest(id, h, f) => Message::GhostChainRequest(*id, a32(h), a32(f)),
        GMsg::App(kind, idx, data) => {
            let m = ApiMessage {
                msg_index: *idx,
                data: data.clone(),
            };
            match kind % 3 {
                0 => Message::ApplicationMessage(m),
                1 => Message::Result(m),
                _ => Message::Error(m),
            }
        }
        GMsg::KeyList(k) => Message::KeyListUpdate(k.iter().map(|x| a33(x)).collect()),
    }
}

fn msg_semantic_eq(a: &Message, b: &Message) -> bool {
    match (a, b) {
        (Message::HandshakeChallenge(x), Message::HandshakeChallenge(y)) => x.challenge == y.challenge,
        (Message::HandshakeResponse(x), Message::HandshakeResponse(y)) => {
            x.public_key == y.public_key
                && x.signature == y.signature
                && x.is_lite == y.is_lite
                && x.block_fetch_url == y.block_fetch_url
                && x.challenge == y.challenge
                && x.wallet_version == y.wallet_version
                && x.core_version == y.core_version
                && x.services.len() == y.services.len()
                && x.services.iter().zip(&y.services).all(|(p, q)| {
                    p.service == q.service && p.domain == q.domain && p.name == q.name
                })
        }
        (Message::Block(x), Message::Block(y)) => block_eq(x, y),
        (Message::Transaction(x), Message::Transaction(y)) => tx_eq(x, y),
        (Message::BlockchainRequest(x), Message::BlockchainRequest(y)) => x.serialize() == y.serialize(),
        (Message::BlockHeaderHash(h, i), Message::BlockHeaderHash(h2, i2)) => h == h2 && i == i2,
        (Message::Ping(), Message::Ping()) => true,
        (Message::Services(x), Message::Services(y)) => {
            x.len() == y.len()
                && x.iter()
                    .zip(y)
                    .all(|(p, q)| p.service == q.service && p.domain == q.domain && p.name == q.name)
        }
        (Message::GhostChain(x), Message::GhostChain(y)) => {
            x.start == y.start
                && x.prehashes == y.prehashes
                && x.previous_block_hashes == y.previous_block_hashes
                && x.block_ids == y.block_ids
                && x.block_ts == y.block_ts
                && x.txs == y.txs
                && x.gts == y.gts
        }
        (Message::GhostChainRequest(a1, b1, c1), Message::GhostChainRequest(a2, b2, c2)) => {
            a1 == a2 && b1 == b2 && c1 == c2
        }
        (Message::ApplicationMessage(x), Message::ApplicationMessage(y))
        | (Message::Result(x), Message::Result(y))
        | (Message::Error(x), Message::Error(y)) => x.msg_index == y.msg_index && x.data == y.data,
        (Message::KeyListUpdate(x), Message::KeyListUpdate(y)) => x == y,
        _ => false,
    }
}

pub fn msg_tag_name(t: u8) -> &'static str {
    match t {
        1 => "HandshakeChallenge",
        2 => "HandshakeResponse",
        3 => "Block",
        4 => "Transaction",
        5 => "BlockchainRequest",
        6 => "BlockHeaderHash",
        7 => "Ping",
        8 => "SPVChain",
        9 => "Services",
        10 => "GhostChain",
        11 => "GhostChainRequest",
        12 => "ApplicationMessage",
        13 => "Result",
        14 => "Error",
        15 => "KeyListUpdate",
        _ => "?",
    }
}

fn rt_msg(g: &GMsg) -> V {
    let mut v = vec![];
    let m = to_message(g);
    let tag = m.get_type_value();
    let name = format!("message.{}", msg_tag_name(tag));
    let e = m.serialize();
    if e.first() != Some(&tag) {
        fail(&mut v, &name, "tag_byte");
    }
    match Message::deserialize(e.clone()) {
        Ok(d) => {
            if !msg_semantic_eq(&m, &d) {
                fail(&mut v, &name, "decode_ne");
            }
            if d.serialize() != e {
                fail(&mut v, &name, "reencode_ne");
            }
        }
        Err(_) => fail(&mut v, &name, "decode_err"),
    }
    v
}

fn words3() -> impl Strategy<Value = (String, String, String)> {
    // non-empty service name so the entry does not vanish as an empty segment
    ("[A-Za-z0-9_.:/ñ語-]{1,12}", arb_service_word(), arb_service_word())
}

pub fn arb_msg() -> impl Strategy<Value = GMsg> {
    prop_oneof![
        bytes_n(32).prop_map(GMsg::Challenge),
        (
            arb_pk(),
            bytes_n(64),
            any::<bool>(),
            "[a-zA-Z0-9:/._üñ日-]{0,40}",
            bytes_n(32),
            proptest::collection::vec(words3(), 0..4),
            (any::<u8>(), any::<u8>(), any::<u16>()),
            (any::<u8>(), any::<u8>(), any::<u16>())
        )
            .prop_map(|(pk, sig, lite, url, challenge, services, wv, cv)| GMsg::Response {
                pk,
                sig,
                lite,
                url,
                challenge,
                services,
                wv,
                cv
            }),
        arb_block().prop_map(GMsg::Block),
        arb_tx().prop_map(GMsg::Tx),
        bytes_n(72).prop_map(GMsg::ChainRequest),
        (bytes_n(32), arb_u64()).prop_map(|(h, i)| GMsg::HeaderHash(h, i)),
        Just(GMsg::Ping),
        proptest::collection::vec(words3(), 0..5).prop_map(GMsg::Services),
        (
            bytes_n(32),
            proptest::collection::vec(
                (bytes_n(32), bytes_n(32), arb_u64(), arb_u64(), any::<bool>(), any::<bool>()),
                0..6
            )
        )
            .prop_map(|(start, rows)| GMsg::Ghost { start, rows }),
        (arb_u64(), bytes_n(32), bytes_n(32)).prop_map(|(a, b, c)| GMsg::GhostRequest(a, b, c)),
        (0u8..3, any::<u32>(), proptest::collection::vec(any::<u8>(), 0..300))
            .prop_map(|(k, i, d)| GMsg::App(k, i, d)),
        proptest::collection::vec(arb_pk(), 0..6).prop_map(GMsg::KeyList),
    ]
}

fn rt_misc(g: &(Vec<u8>, u64, u64, Vec<GSlip>, (u8, u8, u16), u8)) -> V {
    let mut v = vec![];
    // version
    let ver = Version::new(g.4 .0, g.4 .1, g.4 .2);
    let e = ver.serialize();
    match Version::deserialize(&e) {
        Ok(d) => {
            if d != ver || d.serialize() != e || e.len() != 4 {
                fail(&mut v, "version", "decode_ne");
            }
        }
        Err(_) => fail(&mut v, "version", "decode_err"),
    }
    // balance snapshot (text format: Normal slips only by construction of the format)
    let snap = BalanceSnapshot {
        latest_block_id: g.1,
        latest_block_hash: a32(&g.0),
        timestamp: g.2,
        slips: g
            .3
            .iter()
            .map(|s| {
                let mut s = s.to_slip();
                s.slip_type = saito_core::core::consensus::slip::SlipType::Normal;
                s
            })
            .collect(),
    };
    let (name, rows) = snap.get_data();
    match BalanceSnapshot::new(name.clone(), rows.clone()) {
        Ok(d) => {
            if d.latest_block_id != snap.latest_block_id
                || d.latest_block_hash != snap.latest_block_hash
                || d.timestamp != snap.timestamp
                || d.slips.len() != snap.slips.len()
                || !d.slips.iter().zip(&snap.slips).all(|(a, b)| slip_eq(a, b))
            {
                fail(&mut v, "balance_snapshot", "decode_ne");
            }
            let (n2, r2) = d.get_data();
            if n2 != name || r2 != rows {
                fail(&mut v, "balance_snapshot", "reencode_ne");
            }
        }
        Err(_) => fail(&mut v, "balance_snapshot", "decode_err"),
    }
    // wallet disk record
    let k = key(g.5 % 8);
    let w = Wallet::new(k.1, k.0);
    let e = w.serialize_for_disk();
    let mut w2 = Wallet::new([0; 32], [0; 33]);
    w2.deserialize_from_disk(&e);
    if w2.public_key != w.public_key || w2.private_key != w.private_key || w2.serialize_for_disk() != e {
        fail(&mut v, "wallet_disk", "decode_ne");
    }
    v
}

/// Real blocks from an honest history: wire and disk round trips keep hash, signature validity and
/// the validity verdict (twin node fed the round-tripped block accepts exactly like the original).
fn rt_real_chain(ctx: &mut Ctx, spec: &HistSpec, counting: bool) -> V {
    let mut v = vec![];
    let out = block_on(async {
        let built = chain::build_history(spec).await;
        let mut twin_wire = Node::new(spec.ncfg, 0);
        let mut twin_disk = Node::new(spec.ncfg, 0);
        let mut twin_restore = Node::new(spec.ncfg, 0);
        let scratch_io = MemIO::new();
        let mut scratch = Storage::new(Box::new(scratch_io.clone()));
        let mut res = vec![];
        for b in built.main_chain_blocks() {
            let e = b.serialize_for_net(BlockType::Full);
            let mut d = match Block::deserialize_from_net(&e) {
                Ok(d) => d,
                Err(_) => {
                    res.push(("real_block", "decode_err"));
                    continue;
                }
            };
            if d.generate().is_err() || d.hash != b.hash || d.pre_hash != b.pre_hash {
                res.push(("real_block", "hash_ne"));
            }
            if !block_eq(&b, &d) || d.serialize_for_net(BlockType::Full) != e {
                res.push(("real_block", "decode_ne"));
            }
            if !verify_signature(&d.pre_hash, &d.signature, &d.creator) {
                res.push(("real_block", "valid_sig_lost"));
            }
            for (x, y) in b.transactions.iter().zip(&d.transactions) {
                if x.hash_for_signature != y.hash_for_signature {
                    res.push(("real_block", "tx_hash_ne"));
                }
            }
            let r = twin_wire.add(d).await;
            if crate::world::res_str(&r) != "added_lc" {
                res.push(("real_block", "wire_verdict_ne"));
            }
            // disk
            let fname = scratch.write_block_to_disk(&b).await;
            match scratch.load_block_from_disk(&fname).await {
                Ok(mut l) => {
                    let _ = l.generate();
                    if l.hash != b.hash || !block_eq(&b, &l) {
                        res.push(("block_file", "decode_ne"));
                    }
                    if !fname.ends_with(&b.get_file_name()) {
                        res.push(("block_file", "name_ne"));
                    }
                    let r = twin_disk.add(l).await;
                    if crate::world::res_str(&r) != "added_lc" {
                        res.push(("block_file", "disk_verdict_ne"));
                    }
                }
                Err(_) => res.push(("block_file", "decode_err")),
            }
            // pruned, then restored from its file (what a reorganisation over an old block does): the
            // restored block is used as it is, so it has to be the block that was pruned
            let mut p = b.clone();
            p.downgrade_block_to_block_type(BlockType::Pruned, false).await;
            if !p.upgrade_block_to_block_type(BlockType::Full, &scratch, false).await {
                res.push(("block_restore", "restore_failed"));
            } else {
                if p.hash != b.hash || !block_eq(&b, &p) || p.serialize_for_net(BlockType::Full) != e {
                    res.push(("block_restore", "decode_ne"));
                }
                let derived = |x: &Block| -> Vec<([u8; 32], Vec<[u8; 59]>, u64, u64, u64)> {
                    x.transactions
                        .iter()
                        .map(|t| {
                            (
                                t.hash_for_signature.unwrap_or([0; 32]),
                                t.from.iter().chain(t.to.iter()).map(|sl| sl.utxoset_key).collect(),
                                t.total_fees,
                                t.total_work_for_me,
                                t.cumulative_fees,
                            )
                        })
                        .collect()
                };
                if derived(&p) != derived(&b) || p.total_fees != b.total_fees || p.total_work != b.total_work {
                    res.push(("block_restore", "derived_fields_ne"));
                }
                let r = twin_restore.add(p).await;
                if crate::world::res_str(&r) != "added_lc" {
                    res.push(("block_restore", "disk_verdict_ne"));
                }
            }
        }
        let same = twin_wire.tip() == built.node.tip() && twin_disk.tip() == built.node.tip() && twin_restore.tip() == built.node.tip();
        if !same {
            res.push(("real_block", "twin_tip_ne"));
        }
        (res, built.main_chain_blocks().len(), built.stats())
    });
    let (res, n, stats) = out;
    for (f, w) in res {
        fail(&mut v, f, w);
    }
    if counting {
        ctx.evals(n as u64);
        if stats.fee_txs > 0 {
            ctx.nontrivial(&("real", crate::ctx::digest(spec)));
            ctx.class("real_chain_with_fee_txs");
        }
        if stats.atr_txs > 0 {
            ctx.class("real_chain_with_atr");
        }
        ctx.sample_class("real_chain", json!({"format": "real_chain", "spec": spec, "blocks": n}));
    }
    v
}

macro_rules! guarded {
    ($fmt:expr, $e:expr) => {
        match catch(|| $e) {
            Outcome::Returned(v) => v,
            Outcome::Panicked(site, msg) => panic_v($fmt, &site, &msg),
        }
    };
}

pub fn run(ctx: &mut Ctx) {
    ctx.rule = "values generated per format with distinct non-default field values (boundary integers, all enum variants, 0..255 slips, payloads to 72 kB, 0..4 hops, every Message tag, real signed blocks from honest histories); oracle: decode(encode(v)) equals v on all serialized fields, encode(decode(b)) == b, predicted size == real size, hash / hash_for_signature / signature verdict / validity verdict (twin nodes) unchanged. non-trivial = value has >= 2 distinct non-default serialized fields (distinct by value digest) (relay) a real node with two authenticated peers receives a valid transaction whose routing path (1..3 hops) ends at it and passes it on; every Transaction message it sends must decode to the received transaction plus exactly one hop node -> recipient at the end of the path, and the path must still verify; non-trivial = the received path had >= 2 routers before the node".into();
    let n = ctx.tier.pick(1500u32, 30_000);

    pbt_run(ctx, "slip", n, arb_slip(), |c, g, counting| {
        if counting {
            c.eval();
            if g.amount != 0 && g.block_id != g.tx_ordinal {
                c.nontrivial(&("slip", g));
            }
            c.sample_class("slip", json!({"format":"slip","value":g}));
        }
        guarded!("slip", rt_slip(g))
    });
    pbt_run(ctx, "hop", n, arb_hop(), |c, g, counting| {
        if counting {
            c.eval();
            if g.from != g.to {
                c.nontrivial(&("hop", g));
            }
        }
        guarded!("hop", rt_hop(g))
    });
    let stx = (arb_tx(), proptest::option::of(0u8..8)).prop_map(|(tx, signer)| GSignedTx { tx, signer });
    pbt_run(ctx, "transaction", n, stx, |c, g, counting| {
        if counting {
            c.eval();
            let nf = g.tx.from.len() + g.tx.to.len();
            if nf + g.tx.path.len() >= 1 && (g.tx.data_len > 0 || nf >= 2) {
                c.nontrivial(&("tx", g));
            }
            if g.tx.from.len() == 255 || g.tx.to.len() == 255 {
                c.class("tx_255_slips");
            }
            if g.tx.data_len > 60_000 {
                c.class("tx_large_payload");
            }
            if g.signer.is_some() {
                c.class("tx_really_signed");
            }
            c.class(&format!("tx_type_{}", g.tx.tx_type));
            c.sample_class("tx", json!({"format":"transaction","type":g.tx.tx_type,"from":g.tx.from.len(),"to":g.tx.to.len(),"data_len":g.tx.data_len,"hops":g.tx.path.len(),"signer":g.signer}));
        }
        guarded!("transaction", rt_tx(g))
    });
    pbt_run(ctx, "block", ctx.tier.pick(600, 10_000), arb_block(), |c, g, counting| {
        if counting {
            c.eval();
            if !g.txs.is_empty() {
                c.nontrivial(&("block", g));
            } else {
                c.class("block_without_txs");
            }
            c.sample_class("block", json!({"format":"block","id":g.id,"txs":g.txs.len(),"nums":g.nums}));
        }
        guarded!("block", rt_block(g))
    });
    pbt_run(ctx, "message", n, arb_msg(), |c, g, counting| {
        if counting {
            c.eval();
            let tag = to_message(g).get_type_value();
            c.class(&format!("msg_{}", msg_tag_name(tag)));
            if !matches!(g, GMsg::Ping) {
                c.nontrivial(&("msg", g));
            }
            if matches!(g, GMsg::Response { .. }) {
                c.sample_class("msg", json!({"format":"message","value":g}));
            }
        }
        guarded!("message", rt_msg(g))
    });
    let misc = (
        bytes_n(32),
        arb_u64(),
        arb_u64(),
        proptest::collection::vec(arb_slip(), 0..5),
        (any::<u8>(), any::<u8>(), any::<u16>()),
        any::<u8>(),
    );
    pbt_run(ctx, "misc", n / 2, misc, |c, g, counting| {
        if counting {
            c.eval();
            if !g.3.is_empty() {
                c.nontrivial(&("misc", g));
            }
        }
        guarded!("misc", rt_misc(g))
    });
    let hist = chain::arb_honest_hist(ctx.tier.pick(24, 40));
    pbt_run(ctx, "real_chain", ctx.tier.pick(40, 600), hist, |c, spec, counting| {
        match catch(|| rt_real_chain(c, spec, counting)) {
            Outcome::Returned(v) => v,
            Outcome::Panicked(site, msg) => panic_v("real_chain", &site, &msg),
        }
    });
    pbt_run(ctx, "relay", ctx.tier.pick(120, 2_000), (0u8..3, prop_oneof![Just(0u64), 1u64..5000, 5_000u64..2_000_000], 0u8..3), |c, g, counting| {
        match catch(|| rt_relay(g)) {
            Outcome::Returned((v, relayed)) => {
                if counting {
                    c.eval();
                    if relayed {
                        c.class("relayed_transaction_observed_on_the_wire");
                        if g.2 % 3 > 0 {
                            c.nontrivial(&("relay", g));
                        }
                    } else {
                        c.class("relay_case_without_outgoing_transaction");
                    }
                }
                v
            }
            Outcome::Panicked(site, msg) => panic_v("relayed_transaction", &site, &msg),
        }
    });
    let _ = Tier::Quick;
}

pub fn replay(ctx: &mut Ctx, v: &serde_json::Value) -> bool {
    let case = v.get("case").cloned().unwrap_or(serde_json::Value::Null);
    let check = v.get("check").and_then(|c| c.as_str()).unwrap_or("").to_string();
    macro_rules! go {
        ($t:ty, $f:expr) => {
            match serde_json::from_value::<$t>(case.clone()) {
                Ok(g) => {
                    ctx.eval();
                    let out: V = $f(ctx, &g);
                    for (k, w) in out {
                        ctx.violation(&k, w, json!({"check": check, "case": case}));
                    }
                    true
                }
                Err(_) => false,
            }
        };
    }
    match check.as_str() {
        "slip" => go!(GSlip, |_c: &mut Ctx, g: &GSlip| guarded!("slip", rt_slip(g))),
        "hop" => go!(GHop, |_c: &mut Ctx, g: &GHop| guarded!("hop", rt_hop(g))),
        "transaction" => go!(GSignedTx, |_c: &mut Ctx, g: &GSignedTx| guarded!("transaction", rt_tx(g))),
        "block" => go!(GBlock, |_c: &mut Ctx, g: &GBlock| guarded!("block", rt_block(g))),
        "message" => go!(GMsg, |_c: &mut Ctx, g: &GMsg| guarded!("message", rt_msg(g))),
        "misc" => go!((Vec<u8>, u64, u64, Vec<GSlip>, (u8, u8, u16), u8), |_c: &mut Ctx, g: &(Vec<u8>, u64, u64, Vec<GSlip>, (u8, u8, u16), u8)| guarded!("misc", rt_misc(g))),
        "relay" => go!(RelayCase, |_c: &mut Ctx, g: &RelayCase| match catch(|| rt_relay(g)) {
            Outcome::Returned((v, _)) => v,
            Outcome::Panicked(site, msg) => panic_v("relayed_transaction", &site, &msg),
        }),
        "real_chain" => go!(HistSpec, |c: &mut Ctx, g: &HistSpec| match catch(|| rt_real_chain(c, g, false)) {
            Outcome::Returned(v) => v,
            Outcome::Panicked(site, msg) => panic_v("real_chain", &site, &msg),
        }),
        _ => false,
    }
}

// ---------------------------------------------------------------------------
// relay: a transaction that a node passes on keeps its routing path on the wire
// ---------------------------------------------------------------------------

/// (payer 1..3, fee, routers the transaction went through before it reached the delivering peer 0..2)
type RelayCase = (u8, u64, u8);

/// A real node (key 0, routing / verification / consensus threads) with two authenticated peers
/// receives a valid transaction from peer A whose path ends at the node and relays it through
/// Network::propagate_transaction. What it puts on the wire for the other peer must decode to the
/// transaction it received plus exactly one hop (node -> recipient) at the END of the path, and the
/// routing path must still verify: the wire form of a relayed transaction keeps value and verdict.
fn rt_relay(case: &RelayCase) -> (V, bool) {
    use crate::net::NetNode;
    use saito_core::core::io::network_event::NetworkEvent;
    use std::sync::atomic::AtomicU64;
    use std::sync::Arc;
    let mut v: V = vec![];
    let (payer, fee, pre) = *case;
    let payer = 1 + payer % 3;
    let ncfg = crate::world::NodeCfg { gp: 100, heartbeat: 100, social_stake: 0, loading_completed: true, prune: 8 };
    let mut builder = Node::new(ncfg, 0);
    let g = block_on(builder.genesis(&[(1, 50_000_000), (2, 60_000_000), (3, 70_000_000), (1, 5_000_000)], 0));
    let _ = block_on(builder.add(g.clone()));
    let mut n = NetNode::new_with(0, ncfg, Arc::new(AtomicU64::new(1_000_000)), 0, 4, MemIO::new(), false);
    let _ = n.init();
    n.ct.generate_genesis_block = false;
    let gr = n.add_direct(g);
    if std::env::var("VERIF_TRACE").is_ok() {
        eprintln!("relay trace: genesis on the node: {} tip {:?}", gr, n.tip().0);
    }
    const A: u64 = 1;
    const C: u64 = 2;
    n.insert_connected_peer(A, 4, "http://a/");
    n.insert_connected_peer(C, 5, "http://c/");
    n.take_outbox();
    let mut reserved = std::collections::BTreeSet::new();
    let plan = crate::world::TxPlan { payer, payee: 0, amount: 700, fee, max_inputs: 1, ts: 7_100_000 };
    let mut tx = match crate::world::build_honest_tx(&builder, &plan, 2, &mut reserved) {
        Some(t) => t,
        None => return (v, false),
    };
    // path so far: payer -> (routers 6, 7) -> peer A (key 4) -> this node (key 0)
    let mut ring = vec![payer];
    for r in 0..(pre % 3) {
        ring.push(6 + r);
    }
    ring.push(4);
    ring.push(0);
    crate::world::add_path(&mut tx, &ring);
    let before = tx.path.len();
    let sent_ok = tx.validate_routing_path();
    let o1 = n.net_event(NetworkEvent::IncomingNetworkMessage { peer_index: A, buffer: Message::Transaction(tx.clone()).serialize() });
    let o2 = n.pump();
    // transactions are passed on by the consensus thread's timer when it does not produce a block
    let tip_ts = block_on(n.chain_lock.read()).get_latest_block().map(|b| b.timestamp).unwrap_or(0);
    let o3 = n.bundle(tip_ts + 1 + (pre as u64 % 2));
    let _ = n.pump();
    if std::env::var("VERIF_TRACE").is_ok() {
        eprintln!("relay trace: net_event {:?} pump {:?} timer {:?}", o1, o2, o3);
    }
    if std::env::var("VERIF_TRACE").is_ok() {
        let m = block_on(n.mempool_lock.read());
        eprintln!("relay trace: pooled {} sent_ok {} outbox {}", m.transactions.len(), sent_ok, n.io.st.out.lock().unwrap().len());
    }
    let mut relayed = false;
    for (idx, buf) in n.take_outbox() {
        if let Ok(Message::Transaction(mut t2)) = Message::deserialize(buf) {
            if t2.signature != tx.signature {
                continue;
            }
            relayed = true;
            let to = if idx == C { key(5).0 } else { key(4).0 };
            t2.generate_hash_for_signature();
            let mut want = tx.clone();
            want.path.push(Hop { from: key(0).0, to, sig: [0; 64] });
            let same_prefix = t2.path.len() == before + 1 && t2.path[..before].iter().zip(&tx.path).all(|(x, y)| hop_eq(x, y));
            let last_ok = t2.path.last().map(|h| h.from == key(0).0 && h.to == to).unwrap_or(false);
            if !same_prefix || !last_ok {
                fail(&mut v, "relayed_transaction", "path_reordered_or_changed");
            }
            let mut a = t2.clone();
            a.path.clear();
            let mut b = tx.clone();
            b.path.clear();
            if !tx_eq(&a, &b) {
                fail(&mut v, "relayed_transaction", "decode_ne");
            }
            if sent_ok && !t2.validate_routing_path() {
                fail(&mut v, "relayed_transaction", "routing_path_verdict_lost");
            }
            let _ = want;
        }
    }
    (v, relayed)
}
