//! C13 — automatic rebroadcast preserves ownership at the retention-window edge.

use std::collections::{BTreeMap, BTreeSet};

use proptest::prelude::*;
use saito_core::core::consensus::block::Block;
use saito_core::core::consensus::mempool::Mempool;
use saito_core::core::consensus::slip::{Slip, SlipType};
use saito_core::core::consensus::transaction::{Transaction, TransactionType};
use saito_core::core::defs::*;
use serde::{Deserialize, Serialize};
use serde_json::json;

use crate::chain::*;
use crate::ctx::{block_on, digest, pbt_run, Ctx};
use crate::deliver::*;
use crate::observe::BlockTable;
use crate::refmodel::*;
use crate::world::*;

#[derive(Debug, Clone, Serialize, Deserialize, PartialEq, Eq, Hash)]
pub struct Case {
    pub hist: HistSpec,
}

#[derive(Debug, Default)]
pub struct Info {
    pub edge_blocks: usize,
    pub rebroadcast: usize,
    pub dust: usize,
    pub both_in_one_block: usize,
    pub payout_blocks: usize,
    pub second_generation: usize,
    pub spend_probes: usize,
    pub nft_rebroadcast: usize,
    pub forged_probes: usize,
    pub nft_second_generation: usize,
    pub reorg_over_edge: usize,
}

fn same_coordinates(e: &RefEntry, s: &Slip) -> bool {
    e.owner == s.public_key && e.block_id == s.block_id && e.tx_ordinal == s.tx_ordinal && e.slip_index == s.slip_index
}

/// Checks block `b` (height h > gp+1) against the ledger state just before it.
fn check_edge_block(b: &Block, before: &RefLedger, gp: u64, info: &mut Info, expiring_block: Option<&Block>) -> Vec<(String, String)> {
    let mut v = vec![];
    let expiring_id = b.id - gp - 1;
    let u: Vec<(&UKey, &RefEntry)> = before
        .utxo
        .iter()
        .filter(|(_, e)| e.block_id == expiring_id && e.amount > 0 && e.slip_type != 9)
        .collect();
    info.edge_blocks += 1;
    let mut matched: BTreeMap<UKey, usize> = BTreeMap::new();
    let mut payout_sum: u128 = 0;
    let mut rebroadcast_fees: u128 = 0;
    for (ti, t) in b.transactions.iter().enumerate() {
        if t.transaction_type != TransactionType::ATR {
            continue;
        }
        // single-slip rebroadcast, or the rebroadcast of an NFT group [Bound, payload, Bound] whose
        // payload slip carries the value
        let triple = t.from.len() == 3
            && t.to.len() == 3
            && t.from[0].slip_type == SlipType::Bound
            && t.from[2].slip_type == SlipType::Bound
            && t.from[1].slip_type != SlipType::Bound;
        if !(triple || (t.from.len() == 1 && t.to.len() == 1)) {
            v.push(("C13|atr_shape".into(), format!("block id {} tx {}: rebroadcast transaction with {} inputs / {} outputs", b.id, ti, t.from.len(), t.to.len())));
            continue;
        }
        let (f, o) = if triple { (&t.from[1], &t.to[1]) } else { (&t.from[0], &t.to[0]) };
        if !triple {
            // a payload that sits between two Bound slips at the head of its transaction (the layout
            // of a minted NFT and of a rebroadcast NFT group alike) travels with them: NFT transfers
            // are not generated, so the group is intact whenever its payload is unspent
            if let Some(xb) = expiring_block {
                let orig = xb.transactions.iter().find(|x| x.to.first().map(|s| s.tx_ordinal) == Some(f.tx_ordinal) && x.to.first().map(|s| s.block_id) == Some(f.block_id));
                if let Some(x) = orig {
                    if f.slip_index == 1 && x.to.len() >= 3 && x.to[0].slip_type == SlipType::Bound && x.to[2].slip_type == SlipType::Bound && x.to[1].slip_type != SlipType::Bound {
                        v.push((
                            "C13|nft_group_split_at_rebroadcast".into(),
                            format!("block id {} tx {}: output {}-{}-1 is the payload of an NFT group [Bound, {:?}, Bound] but is rebroadcast alone: the bound slips do not reappear", b.id, ti, f.block_id, f.tx_ordinal, x.to[1].slip_type),
                        ));
                    }
                }
            }
        }
        if triple {
            info.nft_rebroadcast += 1;
            if f.slip_type == SlipType::ATR {
                info.nft_second_generation += 1;
            }
            for (i, j) in [(0usize, 0usize), (2, 2)] {
                let (bi, bo) = (&t.from[i], &t.to[j]);
                if bo.slip_type != SlipType::Bound || bo.public_key != bi.public_key || bo.amount != bi.amount {
                    v.push(("C13|nft_bound_slip_changed".into(), format!("block id {} tx {}: bound slip {} of a rebroadcast NFT group is not carried over unchanged", b.id, ti, i)));
                }
                if bi.block_id != f.block_id || bi.tx_ordinal != f.tx_ordinal || (bi.slip_index as i32 - f.slip_index as i32).abs() != 1 {
                    v.push(("C13|nft_group_not_adjacent".into(), format!("block id {} tx {}: bound slip {} does not sit next to the payload slip in the original transaction", b.id, ti, i)));
                }
            }
        }
        let m: Vec<&(&UKey, &RefEntry)> = u.iter().filter(|(_, e)| same_coordinates(e, f)).collect();
        if m.is_empty() {
            v.push((
                "C13|rebroadcast_outside_expiring_set".into(),
                format!("block id {} tx {}: rebroadcast of output {}-{}-{} which is not an unspent output of block {}", b.id, ti, f.block_id, f.tx_ordinal, f.slip_index, expiring_id),
            ));
            continue;
        }
        let (k, e) = m[0];
        if matched.insert((*k).clone(), ti).is_some() {
            v.push(("C13|rebroadcast_twice".into(), format!("block id {}: output {}-{}-{} is rebroadcast by two transactions", b.id, e.block_id, e.tx_ordinal, e.slip_index)));
        }
        if o.public_key != e.owner {
            v.push(("C13|rebroadcast_changes_owner".into(), format!("block id {} tx {}: rebroadcast output is paid to a different key than the owner of {}-{}-{}", b.id, ti, e.block_id, e.tx_ordinal, e.slip_index)));
        }
        if o.slip_type != SlipType::ATR {
            v.push(("C13|rebroadcast_output_type".into(), format!("block id {} tx {}: rebroadcast output has type {:?}", b.id, ti, o.slip_type)));
        }
        if f.amount < e.amount {
            v.push(("C13|rebroadcast_input_below_original".into(), format!("block id {} tx {}: input amount {} < original amount {}", b.id, ti, f.amount, e.amount)));
        }
        if o.amount > f.amount {
            v.push(("C13|rebroadcast_output_exceeds_input".into(), format!("block id {} tx {}: output {} > value plus payout {}", b.id, ti, o.amount, f.amount)));
        }
        payout_sum += (f.amount as u128).saturating_sub(e.amount as u128);
        rebroadcast_fees += (f.amount as u128).saturating_sub(o.amount as u128);
        info.rebroadcast += 1;
        if e.slip_type == 1 {
            info.second_generation += 1;
        }
    }
    if payout_sum != b.total_payout_atr as u128 {
        v.push((
            "C13|payout_not_taken_from_treasury".into(),
            format!("block id {}: rebroadcast outputs carry a payout of {} but the treasury is debited {}", b.id, payout_sum, b.total_payout_atr),
        ));
    }
    if b.total_payout_atr > 0 {
        info.payout_blocks += 1;
    }
    let dust: Vec<&(&UKey, &RefEntry)> = u.iter().filter(|(k, _)| !matched.contains_key(*k)).collect();
    let dust_sum: u128 = dust.iter().map(|(_, e)| e.amount as u128).sum();
    info.dust += dust.len();
    if !dust.is_empty() && !matched.is_empty() {
        info.both_in_one_block += 1;
    }
    if rebroadcast_fees + dust_sum != b.total_fees_atr as u128 {
        v.push((
            "C13|expiring_value_not_accounted".into(),
            format!("block id {}: rebroadcast fees {} + value of {} outputs not rebroadcast {} != total_fees_atr {}", b.id, rebroadcast_fees, dust.len(), dust_sum, b.total_fees_atr),
        ));
    }
    v
}

pub fn run_case(case: &Case) -> (Vec<(String, String)>, Info) {
    let mut info = Info::default();
    let mut v: Vec<(String, String)> = vec![];
    let gp = case.hist.ncfg.gp;
    let built = block_on(build_history(&case.hist));
    let table = BlockTable::from_blocks(&built.blocks);
    // the history's own producer could not put its honestly produced block past the window edge
    // on its own chain: the rebroadcast step of that block lost or created value (the node's
    // supply check aborts) or producer and validator disagree about it
    for (_, rb, rs) in &built.rejected_own {
        if rb.id > gp + 1 {
            v.push((
                format!("C13|own_window_edge_block_fails|outcome={rs}"),
                format!("block id {} produced honestly on a chain past the window edge ({} rebroadcast transactions) was not accepted by its own producer: {}", rb.id, rb.transactions.iter().filter(|t| t.transaction_type == TransactionType::ATR).count(), rs),
            ));
        }
    }
    let mut d = Deliverer::new(Node::new(case.hist.ncfg, 6), 10_000);
    let mut probed: BTreeSet<UKey> = BTreeSet::new();
    for b in &built.blocks {
        if is_rootless(&d.node, &table, b) {
            continue;
        }
        let outs = d.deliver(b);
        if d.dead {
            // the node aborted (its own supply check, or any other panic) while an honestly produced
            // block past the window edge was put directly on its tip: value went missing or appeared
            // in the rebroadcast step. Aborts during reorganisations are judged by C02 / C03.
            if let Some(o) = outs.first() {
                if let crate::deliver::StepOutcome::Panicked(site, msg) = &o.outcome {
                    if b.id > gp + 1 && o.tip_before.1 == b.previous_block_hash && outs.len() == 1 {
                        v.push((format!("C13|node_aborts_on_window_edge_block|site={site}"), format!("the node aborted at {} ({}) when block id {} (honestly produced, {} rebroadcast transactions) was put on its tip", site, msg, b.id, b.transactions.iter().filter(|t| t.transaction_type == TransactionType::ATR).count())));
                    }
                }
            }
            break;
        }
        // every block of these histories is honestly produced on its branch: none may be refused,
        // and whenever the tip did anything but advance by this block the ledger must still be the
        // replay of the tip's chain (rebroadcast inputs restored on unwind, outputs removed)
        let plain_extension = outs.len() == 1 && outs[0].tip_after.1 == b.hash && outs[0].tip_before.1 == b.previous_block_hash;
        if !plain_extension {
            if outs.iter().any(|o| o.outcome.name() == "invalid") && b.id > gp + 1 {
                v.push(("C13|valid_block_past_window_edge_refused".into(), format!("block id {} (honestly produced on its branch, {} rebroadcast transactions) was refused", b.id, b.transactions.iter().filter(|t| t.transaction_type == TransactionType::ATR).count())));
            }
            let max_id = built.blocks.iter().map(|x| x.id).max().unwrap_or(1) + 1;
            for (suffix, what) in crate::observe::check_consistency(&d.node, &table, max_id) {
                v.push((format!("C13|ledger_not_replay_of_chain|{}", suffix), format!("after the delivery of block id {} (not a plain extension of the tip): {}", b.id, what)));
            }
            if !v.is_empty() {
                break;
            }
        }
        for o in &outs {
            if o.tip_after.1 == o.tip_before.1 {
                continue;
            }
            // the tip moved: check every block that is new on the longest chain
            let new_path = match table.path(&o.tip_after.1) {
                Some(p) => p,
                None => continue,
            };
            let old_set: BTreeSet<SaitoHash> = table.path(&o.tip_before.1).map(|p| p.iter().map(|b| b.hash).collect()).unwrap_or_default();
            let mut ledger = RefLedger::new(gp);
            let mut newly = 0;
            for pb in &new_path {
                if !old_set.contains(&pb.hash) {
                    newly += 1;
                    if pb.id > gp + 1 {
                        let xb = new_path.get((pb.id - gp - 2) as usize).copied().filter(|x| x.id == pb.id - gp - 1);
                        v.extend(check_edge_block(pb, &ledger, gp, &mut info, xb));
                    }
                }
                ledger.apply_block(pb);
            }
            if newly > 1 && new_path.last().map(|b| b.id > gp + 1).unwrap_or(false) {
                info.reorg_over_edge += 1;
            }
            // after the tip block: outputs of the block that just expired can no longer be spent
            let tip = new_path.last().unwrap();
            if tip.id > gp {
                // the next block is tip+1: an output created in block c may be spent by blocks <= c+gp,
                // so everything created at or below tip-gp is out of the window. The block exactly at
                // the edge (tip-gp, rebroadcast by the next block) is probed first.
                let expired_id = tip.id - gp;
                let mut candidates: Vec<RefEntry> = ledger
                    .utxo
                    .iter()
                    .filter(|(k, e)| e.block_id == expired_id && e.amount > 0 && e.slip_type != 9 && !probed.contains(*k))
                    .map(|(_, e)| e.clone())
                    .take(2)
                    .collect();
                candidates.extend(
                    ledger
                        .utxo
                        .iter()
                        .filter(|(k, e)| e.block_id < expired_id && e.amount > 0 && e.slip_type != 9 && !probed.contains(*k))
                        .map(|(_, e)| e.clone())
                        .take(1),
                );
                for e in candidates {
                    let owner = match (0u8..8).map(key).find(|k| k.0 == e.owner) {
                        Some(k) => k,
                        None => continue,
                    };
                    let mut s = Slip::default();
                    s.public_key = e.owner;
                    s.amount = e.amount;
                    s.block_id = e.block_id;
                    s.tx_ordinal = e.tx_ordinal;
                    s.slip_index = e.slip_index;
                    s.slip_type = crate::gen::slip_type_from(e.slip_type);
                    probed.insert(ukey_of_slip(&s));
                    let tx = tx_from_inputs(vec![s], vec![(owner.0, e.amount)], &owner, tip.timestamp + 5, vec![]);
                    let sig = tx.signature;
                    info.spend_probes += 1;
                    let admitted = block_on(async {
                        let mut mp = Mempool::new(d.node.wallet.clone());
                        mp.add_transaction_if_validates(tx, &d.node.chain).await;
                        mp.transactions.contains_key(&sig)
                    });
                    if admitted {
                        v.push((
                            "C13|expired_output_still_spendable".into(),
                            format!("tip id {}: output {}-{}-{} (amount {}) of a block older than the window is still admitted as an input", tip.id, e.block_id, e.tx_ordinal, e.slip_index, e.amount),
                        ));
                    }
                }
            }
        }
        // forged rebroadcast: a block on the tip that carries, besides honest content, an ATR-typed
        // transaction "rebroadcasting" an output that has NOT left the window - once to its owner as
        // an ATR slip, once to another key as a Normal slip. "No other output is rebroadcast."
        if v.is_empty() && !d.dead {
            let (tip_id, tip_hash) = d.node.tip();
            if tip_id > gp + 1 && info.forged_probes < 4 {
                if let Some(path) = table.path(&tip_hash) {
                    let (ledger, _) = RefLedger::replay(gp, &path);
                    let live: Option<RefEntry> = ledger.utxo.values().filter(|e| e.amount > 0 && e.slip_type == 0 && e.block_id + gp > tip_id + 1).max_by_key(|e| (e.block_id, e.amount)).cloned();
                    if let (Some(e), Some(tb)) = (live, d.node.chain.get_latest_block().cloned()) {
                        for variant in 0..2u8 {
                            let creator = key(5);
                            let ts = tb.timestamp + 2 * case.hist.ncfg.heartbeat + 300 + variant as u64;
                            let gt = if crate::props::c01::density_needs_gt(&d.node) { block_on(d.node.mine_gt(tip_hash, &creator, 7_700 + variant as u64)) } else { None };
                            let mut blk = match block_on(d.node.make_block_as(&creator, tip_hash, ts, vec![carrier_tx(&creator, ts)], gt)) {
                                Ok(b) => b,
                                Err(_) => break,
                            };
                            let mut t = Transaction::default();
                            t.transaction_type = TransactionType::ATR;
                            t.timestamp = ts;
                            let mut i = Slip::default();
                            i.public_key = e.owner;
                            i.amount = e.amount;
                            i.block_id = e.block_id;
                            i.tx_ordinal = e.tx_ordinal;
                            i.slip_index = e.slip_index;
                            i.slip_type = SlipType::Normal;
                            i.generate_utxoset_key();
                            t.from.push(i);
                            let mut o = Slip::default();
                            o.amount = e.amount;
                            if variant == 0 {
                                o.public_key = e.owner;
                                o.slip_type = SlipType::ATR;
                            } else {
                                o.public_key = key(6).0;
                                o.slip_type = SlipType::Normal;
                            }
                            t.to.push(o);
                            t.sign(&creator.1);
                            blk.transactions.push(t);
                            re_sign(&mut blk, &creator, true);
                            info.forged_probes += 1;
                            let (out, _) = guarded_add(&mut d.node, blk, 256);
                            match out {
                                StepOutcome::Result("added_lc") | StepOutcome::Result("added_side") => {
                                    v.push((
                                        format!("C13|forged_rebroadcast_accepted|output={}", if variant == 0 { "atr_to_owner" } else { "normal_to_other_key" }),
                                        format!("a block on tip {} carrying an ATR-typed transaction that consumes output {}-{}-{} (block {} has not left the window of {} blocks) was accepted", tip_id, e.block_id, e.tx_ordinal, e.slip_index, e.block_id, gp),
                                    ));
                                    break;
                                }
                                StepOutcome::Panicked(site, msg) => {
                                    v.push((format!("C13|forged_rebroadcast_panics|site={site}"), format!("add_block panicked at {site} on a block with a forged rebroadcast: {msg}")));
                                    break;
                                }
                                _ => {}
                            }
                        }
                    }
                }
            }
        }
        if !v.is_empty() {
            break;
        }
    }
    (v, info)
}

fn eval(c: &mut Ctx, case: &Case, counting: bool) -> Vec<(String, String)> {
    let (v, info) = run_case(case);
    if counting {
        c.evals(info.edge_blocks.max(1) as u64);
        if info.both_in_one_block > 0 {
            c.nontrivial(&digest(case));
        }
        for (n, k) in [
            (info.rebroadcast, "outputs_rebroadcast"),
            (info.dust, "outputs_collected_as_fees"),
            (info.both_in_one_block, "blocks_with_rebroadcast_and_dust"),
            (info.payout_blocks, "blocks_with_treasury_payout"),
            (info.second_generation, "second_generation_rebroadcasts"),
            (info.spend_probes, "expired_spend_probes"),
            (info.forged_probes, "forged_rebroadcast_probes"),
            (info.nft_rebroadcast, "nft_group_rebroadcasts"),
            (info.nft_second_generation, "nft_group_rebroadcast_again(second_generation)"),
            (info.reorg_over_edge, "reorgs_across_window_edge"),
        ] {
            if n > 0 {
                *c.classes.entry(k.to_string()).or_insert(0) += n as u64;
            }
        }
        if info.both_in_one_block > 0 {
            c.sample_class(if info.payout_blocks > 0 { "payout" } else { "plain" }, json!({"case": case, "info": format!("{:?}", info)}));
        }
    }
    v
}

pub fn arb_case(max_blocks: usize) -> impl Strategy<Value = Case> {
    (
        arb_forked_hist(max_blocks),
        prop_oneof![Just(4u64), Just(5u64), Just(6u64), Just(8u64)],
        proptest::collection::vec((0u8..4, 1u64..3000), 2..6),
    )
        .prop_map(|(mut hist, gp, dust)| {
            hist.ncfg.loading_completed = true;
            hist.ncfg.gp = gp;
            hist.issuance.extend([(0u8, 400_000_000u64), (1, 500_000_000), (2, 600_000_000), (3, 70_000_000)]);
            hist.issuance.extend(dust); // tiny outputs: dust once a fee-per-byte level exists
            // forks rarely, chains long: the window must wrap
            for (i, b) in hist.blocks.iter_mut().enumerate() {
                if i % 7 != 3 {
                    b.parent = None;
                }
                for t in b.txs.iter_mut() {
                    t.fee = t.fee.max(50_000);
                }
            }
            // every ninth position: a sibling of the previous block followed by its child, i.e. a
            // competing branch that overtakes the tip: the tip block (with its rebroadcasts, once the
            // window has wrapped) is unwound and the sibling rebroadcasts the same expiring outputs
            let n = hist.blocks.len();
            for i in 1..n {
                if i % 9 == 5 && i + 1 < n {
                    hist.blocks[i].parent = None;
                    hist.blocks[i].back = Some(1);
                    hist.blocks[i + 1].parent = None;
                    hist.blocks[i + 1].back = None;
                }
            }
            Case { hist }
        })
}

pub fn run(ctx: &mut Ctx) {
    ctx.rule = "honest histories of up to 40 blocks with gp in {4,5,6,8} (two and more window wraps), fee-paying transactions (fee-per-byte > 0 so that tiny outputs become dust), both genesis treasuries (payout multiplier 1 and > 1, 5% cap), occasional forks (reorganisations across the window edge), delivered to a node; for every block that becomes part of the longest chain at height h > gp+1, with U = outputs of the on-chain block h-gp-1 still unspent in the independent reference ledger just before h: every rebroadcast transaction refers to exactly one member of U (same coordinates), none twice, none outside U, pays the same owner an ATR-typed output <= value plus payout, the payouts sum to the treasury debit, and rebroadcast fees + value of the members of U that are not rebroadcast == total_fees_atr; the node must not abort when such a block is put directly on its tip, and the history's own producer must accept its own block past the window edge; afterwards a spend of an output older than the window (probed with real signed transactions through the pool entry) is refused. evaluations = window-edge blocks checked. non-trivial = a block whose U contains both a rebroadcast and a dust output; distinct by case digest".into();
    ctx.assumptions.push("NFT groups are created (one generated transaction in ten, laid out like Wallet::create_bound_transaction) and rebroadcast; NFT transfers are not generated.".into());
    let cases = ctx.tier.pick(300u32, 12_000);
    pbt_run(ctx, "window_edge", cases, arb_case(40), |c, case, counting| eval(c, case, counting));
}

pub fn replay(ctx: &mut Ctx, v: &serde_json::Value) -> bool {
    let case: Case = match serde_json::from_value(v.get("case").cloned().unwrap_or(v.clone())) {
        Ok(c) => c,
        Err(_) => return false,
    };
    for (k, w) in eval(ctx, &case, true) {
        ctx.violation(&k, w, json!({"check": "replay", "case": case}));
    }
    true
}
