//! C18, part (b): the HTTP route of saito-rust that serves lite blocks to light clients, driven
//! over real HTTP by the separate binary `vroute` (crate /verif/route, which links saito-rust and
//! is built by run_check.sh for C18). This module only runs that binary and folds its verdicts
//! into the check's context.

use serde_json::{json, Value};

use crate::ctx::{verif_dir, Ctx};

fn vroute_path() -> std::path::PathBuf {
    std::path::Path::new(&verif_dir()).join("route/target/release/vroute")
}

fn scratch() -> std::path::PathBuf {
    let p = std::path::Path::new(&verif_dir()).join(format!("route/target/scratch_{}", std::process::id()));
    let _ = std::fs::remove_dir_all(&p);
    let _ = std::fs::create_dir_all(&p);
    p
}

fn run_vroute(args: &[String]) -> Option<Value> {
    let bin = vroute_path();
    if !bin.exists() {
        return None;
    }
    let out = std::process::Command::new(&bin).args(args).stderr(std::process::Stdio::null()).output().ok()?;
    let text = String::from_utf8_lossy(&out.stdout);
    let line = text.lines().rev().find(|l| l.trim_start().starts_with('{'))?;
    serde_json::from_str(line).ok()
}

fn fold(ctx: &mut Ctx, r: &Value) {
    let cases = r.get("cases").and_then(|x| x.as_u64()).unwrap_or(0);
    let requests = r.get("requests").and_then(|x| x.as_u64()).unwrap_or(0);
    let nontrivial = r.get("nontrivial").and_then(|x| x.as_u64()).unwrap_or(0);
    ctx.evals(requests);
    ctx.extra.insert("route_subcheck".into(), json!({"sequences": cases, "http_requests": requests, "sequences_with_key_list_change_between_requests_for_one_block": nontrivial}));
    for i in 0..nontrivial {
        ctx.nontrivial(&("route", ctx.seed, i));
    }
    if cases > 0 {
        *ctx.classes.entry("route:http_request_sequences".into()).or_insert(0) += cases;
    }
    if nontrivial > 0 {
        *ctx.classes.entry("route:key_list_changed_between_two_requests_for_one_block".into()).or_insert(0) += nontrivial;
    }
    if let Some(vs) = r.get("violations").and_then(|x| x.as_array()) {
        for v in vs {
            let key = v.get("key").and_then(|x| x.as_str()).unwrap_or("C18|route|?").to_string();
            let what = v.get("what").and_then(|x| x.as_str()).unwrap_or("").to_string();
            ctx.violation(&key, what, json!({"check": "route", "route_case": v.get("case").cloned().unwrap_or(Value::Null)}));
        }
    }
}

/// Runs the route sub-check. If the binary is not there or the listener cannot be reached (no
/// loopback networking), that is recorded as an assumption, not as a verdict.
pub fn run(ctx: &mut Ctx) {
    let cases = ctx.tier.pick(150u32, 4000);
    let dir = scratch();
    let r = run_vroute(&[dir.to_string_lossy().to_string(), ctx.seed.to_string(), cases.to_string()]);
    let _ = std::fs::remove_dir_all(&dir);
    match r {
        Some(r) if r.get("unavailable").and_then(|x| x.as_bool()) != Some(true) => fold(ctx, &r),
        Some(_) => ctx.assumptions.push("route sub-check not run: the HTTP listener of saito-rust could not be reached on 127.0.0.1 in this environment; only the projection calls the route makes were checked".into()),
        None => ctx.assumptions.push("route sub-check not run: /verif/route/target/release/vroute is missing or did not produce a result; only the projection calls the route makes were checked".into()),
    }
}

pub fn replay(ctx: &mut Ctx, ops: &Value) -> bool {
    let dir = scratch();
    let f = dir.join("replay_ops.json");
    if std::fs::write(&f, serde_json::to_vec(ops).unwrap_or_default()).is_err() {
        return false;
    }
    let r = run_vroute(&[dir.to_string_lossy().to_string(), "replay".into(), f.to_string_lossy().to_string()]);
    let _ = std::fs::remove_dir_all(&dir);
    match r {
        Some(r) => {
            fold(ctx, &r);
            true
        }
        None => false,
    }
}
