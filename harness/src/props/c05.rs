//! C05 — fork choice: the tip only moves to a strictly longer, heavy-enough, valid chain with
//! enough golden tickets; a block completing such a chain is adopted; tip height is monotone; an
//! orphan neither moves the tip nor disturbs the chain index.

use std::collections::BTreeSet;

use proptest::prelude::*;
use saito_core::core::consensus::block::Block;
use saito_core::core::defs::*;
use serde::{Deserialize, Serialize};
use serde_json::json;

use crate::chain::*;
use crate::ctx::{block_on, digest, pbt_run, Ctx, Tier};
use crate::deliver::*;
use crate::observe::*;
use crate::props::c03::{all_parent_vectors, arb_adversarial_blockspec};
use crate::world::*;

#[derive(Debug, Clone, Serialize, Deserialize, PartialEq, Eq, Hash)]
pub struct Case {
    pub hist: HistSpec,
    pub order: Vec<u16>,
}

#[derive(Debug, Default, Clone)]
pub struct Info {
    pub tip_moves: usize,
    pub reorgs: usize,
    pub must_adopt_asserted: usize,
    pub unasserted_startup: usize,
    pub refused_lighter: usize,
    pub refused_density: usize,
    pub refused_equal_len: usize,
    pub orphans: usize,
    pub early_blocks: usize,
    pub branches_len2: usize,
    pub dead: Option<String>,
}

/// Reference fork choice facts about the chain ending in block index `i`.
struct ChainFacts<'a> {
    built: &'a Built,
}
impl<'a> ChainFacts<'a> {
    fn path(&self, i: usize) -> Vec<usize> {
        self.built.path_to(i)
    }
    fn all_valid(&self, i: usize) -> bool {
        self.path(i).iter().all(|j| self.built.invalid[*j].is_none())
    }
    /// every window of six consecutive blocks ending at height >= 6 has >= 2 golden tickets
    fn density_ok(&self, i: usize) -> bool {
        let p = self.path(i);
        let gts: Vec<bool> = p.iter().map(|j| self.built.blocks[*j].has_golden_ticket).collect();
        for end in 5..p.len() {
            let c = gts[end - 5..=end].iter().filter(|g| **g).count();
            if c < 2 {
                return false;
            }
        }
        true
    }
    /// the implementation's additional start-up rule: >= 1 ticket among the first five blocks
    fn startup_rule_ok(&self, i: usize) -> bool {
        let p = self.path(i);
        if p.len() < 5 {
            return true;
        }
        p[..5].iter().any(|j| self.built.blocks[*j].has_golden_ticket)
    }
    /// (burn fee of the part of chain(a) not shared with chain(b), same for b)
    fn diverging_burnfee(&self, a: usize, b: usize) -> (u128, u128) {
        let pa = self.path(a);
        let pb = self.path(b);
        let mut k = 0;
        while k < pa.len() && k < pb.len() && pa[k] == pb[k] {
            k += 1;
        }
        let s = |p: &[usize]| p[k..].iter().map(|j| self.built.blocks[*j].burnfee as u128).sum::<u128>();
        (s(&pa), s(&pb))
    }
}

pub fn run_case(case: &Case) -> (Vec<(String, String)>, Info) {
    let built = block_on(build_history(&case.hist));
    let mut info = Info::default();
    let mut v: Vec<(String, String)> = vec![];
    let facts = ChainFacts { built: &built };
    let max_id = built.blocks.iter().map(|b| b.id).max().unwrap_or(1) + 1;
    let idx_of = |h: &SaitoHash| built.index_of(h);
    // classification: number of branches with >= 2 blocks beyond their fork point
    {
        let mut child_count = vec![0usize; built.blocks.len()];
        for p in built.parent.iter().flatten() {
            child_count[*p] += 1;
        }
        let leaves: Vec<usize> = (0..built.blocks.len()).filter(|i| child_count[*i] == 0).collect();
        for l in &leaves {
            // length of the unshared tail
            let mut len = 0;
            let mut cur = *l;
            loop {
                len += 1;
                match built.parent[cur] {
                    Some(p) if child_count[p] == 1 => cur = p,
                    _ => break,
                }
            }
            if len >= 2 {
                info.branches_len2 += 1;
            }
        }
    }
    let bound = 4 * built.blocks.len() as u64 + 16;
    let mut d = Deliverer::new(Node::new(case.hist.ncfg, 5), bound);
    let n = built.blocks.len() - 1;
    let mut seq: Vec<usize> = vec![0];
    seq.extend(permutation(n, &case.order).iter().map(|i| i + 1));
    let mut known: BTreeSet<usize> = BTreeSet::new(); // accepted by the node
    let mut orphan_seen = false;

    let mut queue: Vec<(Block, bool)> = vec![];
    for idx in seq {
        queue.clear();
        queue.push((built.blocks[idx].clone(), false));
        while let Some((b, reoffered)) = queue.pop() {
            if d.dead {
                break;
            }
            let bi = match idx_of(&b.hash) {
                Some(i) => i,
                None => continue,
            };
            let parent_known = bi == 0 || built.parent[bi].map(|p| known.contains(&p)).unwrap_or(false);
            // parent stored but the branch's fork point has been purged: add_block takes the same
            // out-of-order branch as for a parentless block (F10), whatever loading_completed says
            let purged_root = parent_known && bi != 0 && crate::deliver::is_rootless(&d.node, &crate::observe::BlockTable::default(), &b);
            let before = block_on(snapshot(&d.node, max_id));
            let o = d.offer(b.clone(), reoffered);
            match &o.outcome {
                StepOutcome::Panicked(site, _) => {
                    info.dead = Some(format!("panic@{site}"));
                    break;
                }
                StepOutcome::Diverged(_) => {
                    info.dead = Some("diverged".into());
                    break;
                }
                _ => {}
            }
            if o.outcome.accepted() {
                // two tree positions can hold the very same block (same parent, timestamp, creator and
                // content): whatever is known about one is known about all of them
                for (j, other) in built.blocks.iter().enumerate() {
                    if other.hash == b.hash {
                        known.insert(j);
                    }
                }
                known.insert(bi);
            }
            let after = block_on(snapshot(&d.node, max_id));
            let lc_false = !case.hist.ncfg.loading_completed;
            // (d) orphan: neither tip nor index may change
            if !parent_known && !known.contains(&bi) || (!parent_known && o.outcome.accepted()) {
                info.orphans += 1;
                // finding F10 needs a parentless block at or below the tip's height; one that merely
                // arrives early (above the tip) must leave tip and index alone like any other, and
                // the history goes on being judged
                let hazardous = b.id <= before.tip_id;
                if lc_false && hazardous {
                    orphan_seen = true;
                }
                if lc_false && !hazardous {
                    info.early_blocks += 1;
                }
                if before.tip_hash != after.tip_hash || before.lc_index != after.lc_index {
                    let key = if lc_false && hazardous { "C05|orphan_path".to_string() } else if lc_false { "C05|early_block_disturbs|loading_completed=false".to_string() } else { "C05|orphan_disturbs|loading_completed=true".to_string() };
                    v.push((key, format!("block idx {} (id {}) arrived before its parent: tip {} -> {}, index changed: {}", bi, b.id, hx(&before.tip_hash), hx(&after.tip_hash), before.lc_index != after.lc_index)));
                }
            }
            if purged_root {
                info.orphans += 1;
                orphan_seen = true;
                if before.tip_hash != after.tip_hash || before.lc_index != after.lc_index {
                    v.push(("C05|orphan_path".to_string(), format!("block idx {} (id {}) extends a branch whose fork point has been purged: tip {} -> {}, index changed: {}", bi, b.id, hx(&before.tip_hash), hx(&after.tip_hash), before.lc_index != after.lc_index)));
                }
            }
            if orphan_seen {
                // once the out-of-order branch has inserted a parentless block (F10), the rest of
                // this history is attributed to that finding
                if !v.is_empty() {
                    break;
                }
                while let Some(p) = d.take_ready_pending() {
                    queue.push((p, true));
                }
                continue;
            }
            let tb = idx_of(&before.tip_hash);
            let ta = idx_of(&after.tip_hash);
            // (c) monotone height
            if after.tip_id < before.tip_id {
                v.push(("C05|tip_height_decreased".into(), format!("tip height {} -> {} after block idx {}", before.tip_id, after.tip_id, bi)));
            }
            // (a) the tip only moves to an eligible chain
            if before.tip_hash != after.tip_hash && before.tip_hash != [0; 32] {
                info.tip_moves += 1;
                match (tb, ta) {
                    (Some(tb), Some(ta)) => {
                        if built.parent[ta] != Some(tb) {
                            info.reorgs += 1;
                        }
                        let (la, lb) = (built.blocks[ta].id, built.blocks[tb].id);
                        if la <= lb {
                            v.push(("C05|moved_to_not_longer".into(), format!("tip moved from height {} to height {}", lb, la)));
                        }
                        let (bfa, bfb) = facts.diverging_burnfee(ta, tb);
                        if bfa < bfb {
                            v.push(("C05|moved_to_lighter".into(), format!("tip moved to a chain with cumulative burn fee {} < {} over the diverging segment", bfa, bfb)));
                        }
                        if !facts.all_valid(ta) {
                            v.push(("C05|moved_to_invalid".into(), format!("tip moved to a chain containing an invalid block (tip idx {})", ta)));
                        }
                        if !facts.density_ok(ta) {
                            let inner = {
                                // does the window ending at the new tip itself satisfy the rule?
                                let p = facts.path(ta);
                                let g: Vec<bool> = p.iter().map(|j| built.blocks[*j].has_golden_ticket).collect();
                                p.len() >= 6 && g[p.len() - 6..].iter().filter(|x| **x).count() >= 2
                            };
                            let key = if inner { "C05|density_inner_window" } else { "C05|density_tip_window" };
                            v.push((key.into(), format!("tip moved to a chain (tip idx {}, height {}) with a window of six blocks holding < 2 golden tickets", ta, la)));
                        }
                    }
                    _ => v.push(("C05|tip_unknown".into(), "tip moved to/from a block that was never delivered".into())),
                }
            }
            // (b) a block completing an eligible chain must be adopted
            if let Some(tb) = tb {
                let ancestors_known = facts.path(bi).iter().all(|j| *j == bi || known.contains(j));
                if ancestors_known && before.tip_hash != b.hash && !before.blocks.contains_key(&b.hash) {
                    let longer = b.id > built.blocks[tb].id;
                    let (bfn, bfo) = facts.diverging_burnfee(bi, tb);
                    let valid = facts.all_valid(bi);
                    let dens = facts.density_ok(bi);
                    if longer && bfn >= bfo && valid && dens {
                        if facts.startup_rule_ok(bi) {
                            info.must_adopt_asserted += 1;
                            if after.tip_hash != b.hash {
                                v.push((
                                    "C05|eligible_chain_not_adopted".into(),
                                    format!("block idx {} (height {}) completes a strictly longer ({} > {}), heavy-enough ({} >= {}), valid, ticket-dense chain but the tip stayed at {} (outcome {})", bi, b.id, b.id, built.blocks[tb].id, bfn, bfo, hx(&after.tip_hash), o.outcome.name()),
                                ));
                            }
                        } else {
                            info.unasserted_startup += 1;
                        }
                    } else if valid && ancestors_known {
                        if longer && bfn < bfo {
                            info.refused_lighter += 1;
                        }
                        if longer && !dens {
                            info.refused_density += 1;
                        }
                        if b.id == built.blocks[tb].id {
                            info.refused_equal_len += 1;
                        }
                    }
                }
            }
            if !v.is_empty() {
                break;
            }
            while let Some(p) = d.take_ready_pending() {
                queue.push((p, true));
            }
        }
        if !v.is_empty() || d.dead || info.dead.is_some() {
            break;
        }
    }
    (v, info)
}

fn classify(c: &mut Ctx, case: &Case, info: &Info) {
    c.eval();
    if info.branches_len2 >= 2 {
        c.nontrivial(&digest(case));
        c.class("two_branches_len2");
    }
    if info.reorgs > 0 {
        c.class("with_reorg");
    }
    if info.must_adopt_asserted > 0 {
        c.class("must_adopt_asserted");
    }
    if info.unasserted_startup > 0 {
        c.class("unasserted_startup_rule");
    }
    if info.refused_lighter > 0 {
        c.class("longer_but_lighter_seen");
    }
    if info.refused_density > 0 {
        c.class("longer_but_ticket_poor_seen");
    }
    if info.refused_equal_len > 0 {
        c.class("equal_length_fork_seen");
    }
    if info.orphans > 0 {
        c.class("with_orphan");
        if info.early_blocks > 0 {
            c.class("with_early_block(judged)");
        }
    }
    if let Some(d) = &info.dead {
        c.class(&format!("aborted_attributed_to_C04:{d}"));
    }
}

fn eval(c: &mut Ctx, case: &Case, counting: bool) -> Vec<(String, String)> {
    let (v, info) = run_case(case);
    if counting {
        classify(c, case, &info);
        if info.refused_lighter > 0 {
            c.sample_class("lighter", json!({"case": case, "info": format!("{:?}", info)}));
        } else if info.refused_density > 0 {
            c.sample_class("density", json!({"case": case, "info": format!("{:?}", info)}));
        } else if info.reorgs > 0 && info.must_adopt_asserted > 1 {
            c.sample_class("reorg", json!({"case": case, "info": format!("{:?}", info)}));
        }
    }
    v
}

fn sel_for(idx: usize, len: usize) -> u16 {
    (((idx as u64) << 16).div_ceil(len as u64)) as u16
}

fn small(ncfg: NodeCfg, parents: &[usize], gt_mask: u32, dt_mask: u32) -> HistSpec {
    let blocks = parents
        .iter()
        .enumerate()
        .map(|(i, p)| BlockSpec {
            parent: Some(sel_for(*p, i + 1)),
            dt: if (dt_mask >> i) & 1 == 1 { 2500 } else { 210 + 7 * i as u32 },
            gt: (gt_mask >> i) & 1 == 1,
            creator: (i % 3) as u8,
            miner: 1,
            txs: vec![],
            bad_tx: None,
            corrupt: None, back: None,
        })
        .collect();
    HistSpec {
        ncfg,
        treasury: 0,
        issuance: vec![(0, 5_000_000), (1, 7_000_000)],
        blocks,
        gt_policy: false,
    }
}

pub fn arb_blockspec_c05() -> impl Strategy<Value = BlockSpec> {
    (
        prop_oneof![3 => Just(None), 2 => any::<u16>().prop_map(Some)],
        prop_oneof![3 => 200u32..260, 2 => 260u32..1000, 2 => 1000u32..4000, 1 => 30u32..200],
        prop_oneof![3 => Just(false), 2 => Just(true)],
        0u8..3,
        0u8..3,
        proptest::collection::vec(arb_txspec(), 0..2),
    )
        .prop_map(|(parent, dt, gt, creator, miner, txs)| BlockSpec {
            parent,
            dt,
            gt,
            creator,
            miner,
            txs,
            bad_tx: None,
            corrupt: None, back: None,
        })
}

pub fn arb_case(max_blocks: usize) -> impl Strategy<Value = Case> {
    (
        arb_ncfg(),
        proptest::collection::vec(
            prop_oneof![6 => arb_blockspec_c05(), 1 => arb_adversarial_blockspec()],
            3..max_blocks,
        ),
        proptest::collection::vec(any::<u16>(), 0..max_blocks),
        any::<bool>(),
    )
        .prop_map(|(ncfg, blocks, order, in_order)| Case {
            hist: HistSpec {
                ncfg,
                treasury: 0,
                issuance: vec![(0, 500_000_000), (1, 700_000_000), (2, 90_000_000), (0, 1_000_000)],
                blocks,
                gt_policy: false,
            },
            order: if in_order { vec![] } else { order },
        })
}

pub fn run(ctx: &mut Ctx) {
    ctx.rule = "block trees with generated golden-ticket placement and burn-fee profile (timestamp offsets from 30 ms to 4 s, i.e. burn fee factors 0.16..1.8 per block; equal-length forks, longer-but-lighter forks, forks whose ticket density fails only inside the side chain, invalid blocks) delivered in every order (exhaustive for <= N non-genesis blocks x ticket masks x two-valued timestamp profile x all permutations) or a generated order; a reference fork-choice written from the statement judges every tip movement (strictly longer, cumulative burn fee over the diverging segment >=, all blocks valid by construction, >= 2 tickets in every six-block window ending at height >= 6) and every delivery that completes such a chain (must be adopted; asserted only if the chain also satisfies the implementation's extra start-up rule of one ticket in the first five blocks), plus monotone tip height and orphan neutrality. non-trivial = tree has >= 2 competing branches of length >= 2; distinct by case digest".into();
    ctx.assumptions.push("Validity of a block is known by construction (honest producer following its branch, or adversarial edit); burn fees are read from the headers of blocks that are valid by construction.".into());
    let n_max = ctx.tier.pick(4usize, 5);
    let mut exhaustive_cases = 0u64;
    for loading_completed in [true, false] {
        let ncfg = NodeCfg {
            gp: 100,
            heartbeat: 100,
            social_stake: 0,
            loading_completed,
            prune: 8,
        };
        for n in 2..=n_max {
            let perms = all_permutations(n);
            for parents in all_parent_vectors(n) {
                let full = n <= 3 || (ctx.tier == Tier::Thorough && n <= 4);
                let gt_masks: Vec<u32> = if full { (0..(1u32 << n)).collect() } else { vec![0, (1 << n) - 1, 0b0101 & ((1 << n) - 1), 0b1010 & ((1 << n) - 1), 0b0011 & ((1 << n) - 1)] };
                let dt_masks: Vec<u32> = if full { (0..(1u32 << n)).collect() } else { vec![0, (1 << n) - 1, 0b0110 & ((1 << n) - 1), 0b1001 & ((1 << n) - 1)] };
                for gm in &gt_masks {
                    for dm in &dt_masks {
                        let hist = small(ncfg, &parents, *gm, *dm);
                        for p in &perms {
                            let mut rest: Vec<usize> = (0..n).collect();
                            let mut order = vec![];
                            for x in p {
                                let k = rest.iter().position(|r| r == x).unwrap();
                                order.push(sel_for(k, rest.len()));
                                rest.remove(k);
                            }
                            let case = Case { hist: hist.clone(), order };
                            exhaustive_cases += 1;
                            for (k, w) in eval(ctx, &case, true) {
                                ctx.violation(&k, w, json!({"check": "exhaustive_small_tree", "case": case}));
                            }
                        }
                    }
                }
            }
        }
    }
    ctx.extra.insert("exhaustive_subspace".into(), json!({"non_genesis_blocks_up_to": n_max, "cases": exhaustive_cases}));
    // directed: a side chain that is first longer but lighter (deferred), then heavy enough but ends
    // in an invalid block (a reorganisation that winds above the tip's height and is rolled back),
    // followed by a valid extension of the restored tip - over a grid of timestamp gaps (burn fees)
    // and side-chain lengths, in creation order
    let mut directed = 0u64;
    {
        let ncfg = NodeCfg { gp: 100, heartbeat: 100, social_stake: 0, loading_completed: true, prune: 8 };
        let blk = |parent: Option<u16>, dt: u32, gt: bool, corrupt: Option<crate::adversary::BlockEdit>| BlockSpec { parent, dt, gt, creator: 0, miner: 1, txs: vec![], bad_tx: None, corrupt, back: None };
        for dt_m in [30u32, 60, 120, 250] {
            for dt_s in [300u32, 600, 1200, 2400, 4000] {
                for side_len in 2..=4usize {
                    for edit in [crate::adversary::BlockEdit::CreatorSig, crate::adversary::BlockEdit::Treasury] {
                        // built index: 0 genesis, 1 b2, 2 m3, then the side chain, then m4
                        let mut blocks = vec![blk(None, 250, false, None), blk(None, dt_m, true, None)];
                        for j in 0..side_len {
                            let len = 3 + j;
                            let parent = if j == 0 { Some(sel_for(1, len)) } else { None };
                            blocks.push(blk(parent, dt_s, j % 2 == 0, if j + 1 == side_len { Some(edit) } else { None }));
                        }
                        let len = 3 + side_len;
                        blocks.push(blk(Some(sel_for(2, len)), 250, true, None));
                        let case = Case { hist: HistSpec { ncfg, treasury: 0, issuance: vec![(0, 5_000_000), (1, 7_000_000)], blocks, gt_policy: false }, order: vec![] };
                        directed += 1;
                        for (k, w) in eval(ctx, &case, true) {
                            ctx.violation(&k, w, json!({"check": "deferred_fork_then_failed_reorg", "case": case}));
                        }
                    }
                }
            }
        }
    }
    ctx.extra.insert("directed_deferred_fork_cases".into(), json!(directed));
    let cases = ctx.tier.pick(400u32, 15_000);
    pbt_run(ctx, "random_trees", cases, arb_case(18), |c, case, counting| eval(c, case, counting));
}

pub fn replay(ctx: &mut Ctx, v: &serde_json::Value) -> bool {
    let case: Case = match serde_json::from_value(v.get("case").cloned().unwrap_or(v.clone())) {
        Ok(c) => c,
        Err(_) => return false,
    };
    for (k, w) in eval(ctx, &case, true) {
        ctx.violation(&k, w, json!({"check": "replay", "case": case}));
    }
    true
}
