//! C20 — shared locks are taken in the documented global order
//! (configuration 3 < blockchain 4 < mempool 5 < peers 6 < wallet 7).
//!
//! Acquisition histories are observed from outside, without touching the source: before a handler
//! runs the harness takes lock L itself, polls the handler's future once; if it is pending the
//! handler is waiting for L, and try_read/try_write on the other four locks tell which of them it
//! holds at that moment and in which mode.

use std::collections::{BTreeMap, BTreeSet};
use std::future::Future;
use std::pin::Pin;
use std::sync::atomic::{AtomicU64, Ordering};
use std::sync::Arc;
use std::task::{Context, Poll};
use std::time::Duration;

use proptest::prelude::*;
use saito_core::core::consensus::block::{Block, BlockType};
use saito_core::core::consensus::golden_ticket::GoldenTicket;
use saito_core::core::consensus_thread::ConsensusEvent;
use saito_core::core::defs::*;
use saito_core::core::io::network::PeerDisconnectType;
use saito_core::core::io::network_event::NetworkEvent;
use saito_core::core::mining_thread::MiningEvent;
use saito_core::core::msg::message::Message;
use saito_core::core::process::process_event::ProcessEvent;
use saito_core::core::routing_thread::RoutingEvent;
use saito_core::core::util::crypto::hash;
use saito_core::core::verification_thread::VerifyRequest;
use serde::{Deserialize, Serialize};
use serde_json::json;

use crate::chain::*;
use crate::ctx::{block_on, catch, digest, pbt_run, Ctx, Outcome};
use crate::net::*;
use crate::props::c11::prefix;
use crate::world::*;

pub const LOCK_NAMES: [&str; 5] = ["config", "blockchain", "mempool", "peers", "wallet"];
pub const RANK: [u8; 5] = [3, 4, 5, 6, 7];

#[derive(Debug, Clone, PartialEq, Eq, Hash, PartialOrd, Ord)]
pub struct Obs {
    pub handler: String,
    pub acquiring: usize,
    /// (lock index, write-held)
    pub held: Vec<(usize, bool)>,
    pub stuck: bool,
    /// the handler asked for the probed lock again while holding it (observed as a stand-still behind
    /// the harness's queued request; classified, see judge)
    pub reentrant: bool,
}

struct Guard {
    _g: Box<dyn std::any::Any>,
}

fn hold(n: &NetNode, l: usize, write: bool) -> Option<Guard> {
    macro_rules! g {
        ($lock:expr) => {
            if write {
                $lock.clone().try_write_owned().ok().map(|g| Guard { _g: Box::new(g) })
            } else {
                $lock.clone().try_read_owned().ok().map(|g| Guard { _g: Box::new(g) })
            }
        };
    }
    match l {
        0 => g!(n.cfg_lock),
        1 => g!(n.chain_lock),
        2 => g!(n.mempool_lock),
        3 => g!(n.peers_lock),
        _ => g!(n.wallet_lock),
    }
}

/// (somebody holds it at all, somebody holds it for writing)
fn state(n: &NetNode, l: usize) -> (bool, bool) {
    macro_rules! s {
        ($lock:expr) => {{
            let w = $lock.try_write().is_err();
            let r = $lock.try_read().is_err();
            (w, r)
        }};
    }
    match l {
        0 => s!(n.cfg_lock),
        1 => s!(n.chain_lock),
        2 => s!(n.mempool_lock),
        3 => s!(n.peers_lock),
        _ => s!(n.wallet_lock),
    }
}

#[derive(Clone)]
struct LockSet {
    cfg: CfgLock,
    chain: Arc<tokio::sync::RwLock<saito_core::core::consensus::blockchain::Blockchain>>,
    mempool: Arc<tokio::sync::RwLock<saito_core::core::consensus::mempool::Mempool>>,
    peers: Arc<tokio::sync::RwLock<saito_core::core::consensus::peers::peer_collection::PeerCollection>>,
    wallet: Arc<tokio::sync::RwLock<saito_core::core::consensus::wallet::Wallet>>,
}
impl LockSet {
    fn of(n: &NetNode) -> LockSet {
        LockSet { cfg: n.cfg_lock.clone(), chain: n.chain_lock.clone(), mempool: n.mempool_lock.clone(), peers: n.peers_lock.clone(), wallet: n.wallet_lock.clone() }
    }
    fn hold(&self, l: usize, write: bool) -> Option<Guard> {
        macro_rules! g {
            ($lock:expr) => {
                if write {
                    $lock.clone().try_write_owned().ok().map(|g| Guard { _g: Box::new(g) })
                } else {
                    $lock.clone().try_read_owned().ok().map(|g| Guard { _g: Box::new(g) })
                }
            };
        }
        match l {
            0 => g!(self.cfg),
            1 => g!(self.chain),
            2 => g!(self.mempool),
            3 => g!(self.peers),
            _ => g!(self.wallet),
        }
    }
    fn acquire(&self, l: usize, write: bool) -> Pin<Box<dyn Future<Output = Guard>>> {
        macro_rules! a {
            ($lock:expr) => {{
                let lk = $lock.clone();
                if write {
                    Box::pin(async move { Guard { _g: Box::new(lk.write_owned().await) } }) as Pin<Box<dyn Future<Output = Guard>>>
                } else {
                    Box::pin(async move { Guard { _g: Box::new(lk.read_owned().await) } }) as Pin<Box<dyn Future<Output = Guard>>>
                }
            }};
        }
        match l {
            0 => a!(self.cfg),
            1 => a!(self.chain),
            2 => a!(self.mempool),
            3 => a!(self.peers),
            _ => a!(self.wallet),
        }
    }
    fn state(&self, l: usize) -> (bool, bool) {
        macro_rules! s {
            ($lock:expr) => {{
                let w = $lock.try_write().is_err();
                let r = $lock.try_read().is_err();
                (w, r)
            }};
        }
        match l {
            0 => s!(self.cfg),
            1 => s!(self.chain),
            2 => s!(self.mempool),
            3 => s!(self.peers),
            _ => s!(self.wallet),
        }
    }
}

fn poll_once<F: Future + ?Sized>(f: Pin<&mut F>) -> Poll<F::Output> {
    let w = futures::task::noop_waker();
    let mut cx = Context::from_waker(&w);
    f.poll(&mut cx)
}

/// Runs `fut` to completion while probing lock `l` (held by the harness in the given mode).
///
/// Every acquisition of `l` that has to wait is observed, not only the first: when the handler
/// blocks, the harness records which other locks it holds, queues a fresh request of its own
/// *behind* the handler's (tokio's lock is FIFO-fair), releases its guard, and lets the handler run.
/// As soon as the handler gives `l` back the queued request owns it, so the handler's next
/// acquisition blocks again and is observed with its held-set.
fn probed<T>(locks: &LockSet, l: usize, write: bool, handler: &str, rec: &mut Vec<Obs>, fut: impl Future<Output = T>) -> Outcome<Option<T>> {
    catch(|| {
        block_on(async {
            let mut fut = Box::pin(tokio::task::unconstrained(fut));
            let mut guard = locks.hold(l, write);
            let probing = guard.is_some();
            let mut again: Option<Pin<Box<dyn Future<Output = Guard>>>> = None;
            let mut spins = 0;
            let mut observations = 0;
            loop {
                match poll_once(fut.as_mut()) {
                    Poll::Ready(v) => return Some(v),
                    Poll::Pending => {
                        if guard.is_some() {
                            // the handler is waiting - for L, which the harness holds
                            let mut held = vec![];
                            for o in 0..5 {
                                if o == l {
                                    continue;
                                }
                                let (any, wr) = locks.state(o);
                                if any {
                                    held.push((o, wr));
                                }
                            }
                            if probing {
                                rec.push(Obs { handler: handler.to_string(), acquiring: l, held, stuck: false, reentrant: false });
                            }
                            observations += 1;
                            if observations < 64 {
                                let mut a = locks.acquire(l, write);
                                let _ = poll_once(a.as_mut()); // queued behind the handler's request
                                again = Some(a);
                            }
                            guard = None;
                            spins = 0;
                        } else if let Some(a) = again.as_mut() {
                            match poll_once(a.as_mut()) {
                                Poll::Ready(g) => {
                                    guard = Some(g);
                                    again = None;
                                    spins = 0;
                                }
                                Poll::Pending => {
                                    spins += 1;
                                    if spins > 50 {
                                        // neither side can move: the handler holds L and asks for it again,
                                        // its request sits behind the harness's queued one. Withdraw ours.
                                        again = None;
                                        spins = 0;
                                        if let Poll::Ready(v) = poll_once(fut.as_mut()) {
                                            if probing {
                                                rec.push(Obs { handler: handler.to_string(), acquiring: l, held: vec![], stuck: false, reentrant: true });
                                            }
                                            return Some(v);
                                        }
                                        if probing {
                                            rec.push(Obs { handler: handler.to_string(), acquiring: l, held: vec![], stuck: false, reentrant: true });
                                        }
                                    }
                                }
                            }
                        } else {
                            spins += 1;
                            if spins > 200 {
                                if probing {
                                    rec.push(Obs { handler: handler.to_string(), acquiring: l, held: vec![], stuck: true, reentrant: false });
                                }
                                return None;
                            }
                        }
                    }
                }
            }
        })
    })
}

// ---------------------------------------------------------------------------
// Scenario: a node under probe talking to a second node; every handler entry point is exercised
// ---------------------------------------------------------------------------

#[derive(Debug, Clone, Copy, Serialize, Deserialize, PartialEq, Eq, Hash)]
pub enum Step {
    Connect,
    /// deliver the oldest message peer -> node / node -> peer
    DeliverToNode,
    DeliverToPeer,
    CompleteFetch,
    FailFetch,
    PopVerification,
    PopConsensus,
    PopRouting,
    PopMining,
    RoutingTimer,
    ConsensusTimer,
    MiningTimer,
    /// a transaction arrives from the peer
    TxFromPeer,
    /// the node's own producer (timer path)
    Bundle,
    /// golden ticket found by the local miner
    LocalGoldenTicket,
    KeyListFromPeer,
    ServicesFromPeer,
    GhostRequestFromPeer,
    ChainRequestFromPeer,
    ApiFromPeer,
    BogusBlockFromPeer,
    Disconnect,
    StunPeer,
    /// the consensus thread's requests to the router, which ordinary syncing rarely produces: "ask
    /// this peer for its chain again" (after a block too far from ours) and "fetch this block from
    /// anybody"
    ConsensusAsksForChain,
    ConsensusAsksForBlock,
}
pub const ALL_STEPS: [Step; 25] = [
    Step::Connect, Step::DeliverToNode, Step::DeliverToPeer, Step::CompleteFetch, Step::FailFetch, Step::PopVerification, Step::PopConsensus, Step::PopRouting,
    Step::PopMining, Step::RoutingTimer, Step::ConsensusTimer, Step::MiningTimer, Step::TxFromPeer, Step::Bundle, Step::LocalGoldenTicket, Step::KeyListFromPeer,
    Step::ServicesFromPeer, Step::GhostRequestFromPeer, Step::ChainRequestFromPeer, Step::ApiFromPeer, Step::BogusBlockFromPeer, Step::Disconnect, Step::StunPeer, Step::ConsensusAsksForChain, Step::ConsensusAsksForBlock,
];

#[derive(Debug, Clone, Serialize, Deserialize, PartialEq, Eq, Hash)]
pub struct Case {
    pub steps: Vec<Step>,
    /// the probed node is a lite node (its handlers for ghost chains run, it validates in SPV mode)
    #[serde(default)]
    pub lite: bool,
}

/// The canonical flow: connect, handshake, sync six blocks, pool a transaction, produce a block.
pub fn canonical() -> Vec<Step> {
    use Step::*;
    let mut v = vec![Connect];
    for _ in 0..4 {
        v.extend([DeliverToNode, DeliverToPeer]);
    }
    for _ in 0..10 {
        v.extend([DeliverToNode, CompleteFetch, PopVerification, PopConsensus, PopRouting, PopMining]);
    }
    v.extend([RoutingTimer, TxFromPeer, PopVerification, PopConsensus, LocalGoldenTicket, PopConsensus, ConsensusTimer, Bundle, PopRouting, PopMining, MiningTimer]);
    v.extend([KeyListFromPeer, ServicesFromPeer, GhostRequestFromPeer, ChainRequestFromPeer, ApiFromPeer, BogusBlockFromPeer, PopVerification, PopConsensus, FailFetch, ConsensusAsksForChain, ConsensusAsksForBlock, StunPeer, Disconnect, RoutingTimer]);
    v
}

pub fn run_pass(steps: &[Step], l: usize, write: bool, pre: &Built, rec: &mut Vec<Obs>, handlers_seen: &mut BTreeSet<String>, lite: bool) -> Option<(String, String)> {
    let ncfg = NodeCfg { gp: 100, heartbeat: 100, social_stake: 0, loading_completed: true, prune: 8 };
    let chain = pre.main_chain_blocks();
    let clock = Arc::new(AtomicU64::new(6_000_000));
    // node under probe: knows the first 2 blocks, connects to the peer which has all of them
    let mut n = NetNode::new_with(0, ncfg, clock.clone(), 1, 3, MemIO::new(), lite);
    let mut p = NetNode::new(1, ncfg, clock.clone(), 0, 3, MemIO::new());
    n.ct.produce_blocks_by_timer = true;
    let locks = LockSet::of(&n);
    let mut first_panic: Option<(String, String)> = None;
    macro_rules! pr {
        ($name:expr, $fut:expr) => {{
            handlers_seen.insert($name.to_string());
            if let Outcome::Panicked(site, msg) = probed(&locks, l, write, $name, rec, $fut) {
                if first_panic.is_none() {
                    first_panic = Some((site, format!("{}: {}", $name, msg)));
                }
            }
        }};
    }
    pr!("routing.on_init", n.rt.on_init());
    pr!("consensus.on_init", n.ct.on_init());
    pr!("mining.on_init", n.mt.on_init());
    let _ = p.init();
    for (i, b) in chain.iter().enumerate() {
        if i < 2 {
            n.add_direct(b.clone());
        }
        p.add_direct(b.clone());
    }
    let by_hash: BTreeMap<SaitoHash, &Block> = chain.iter().map(|b| (b.hash, b)).collect();
    let mut to_node: Vec<Vec<u8>> = vec![];
    let mut to_peer: Vec<Vec<u8>> = vec![];
    let mut fetches: Vec<(SaitoHash, u64, u64)> = vec![];
    let mut salt = 0u64;
    let builder = pre.node_ref();
    for s in steps {
        salt += 1;
        for (_i, b) in n.take_outbox() {
            to_peer.push(b);
        }
        for (_i, b) in p.take_outbox() {
            to_node.push(b);
        }
        for (h, peer, _u, id) in n.take_fetches() {
            fetches.push((h, peer, id));
        }
        p.take_fetches();
        match s {
            Step::Connect => {
                pr!("routing.net.PeerConnectionResult", n.rt.process_network_event(NetworkEvent::PeerConnectionResult { result: Ok((1, None)) }));
                let _ = p.net_event(NetworkEvent::PeerConnectionResult { result: Ok((10, None)) });
            }
            Step::DeliverToNode => {
                if !to_node.is_empty() {
                    let buf = to_node.remove(0);
                    let tag = crate::props::c09::msg_tag_name(buf.first().copied().unwrap_or(0));
                    let name = format!("routing.net.msg.{tag}");
                    pr!(&name, n.rt.process_network_event(NetworkEvent::IncomingNetworkMessage { peer_index: 1, buffer: buf }));
                }
            }
            Step::DeliverToPeer => {
                if !to_peer.is_empty() {
                    let buf = to_peer.remove(0);
                    let _ = p.net_event(NetworkEvent::IncomingNetworkMessage { peer_index: 10, buffer: buf });
                    let _ = p.pump();
                }
            }
            Step::CompleteFetch => {
                if !fetches.is_empty() {
                    let (h, peer, id) = fetches.remove(0);
                    if let Some(b) = by_hash.get(&h) {
                        pr!("routing.net.BlockFetched", n.rt.process_network_event(NetworkEvent::BlockFetched { block_hash: h, block_id: id, peer_index: peer, buffer: b.serialize_for_net(BlockType::Full) }));
                    }
                }
            }
            Step::FailFetch => {
                let (h, peer, id) = if fetches.is_empty() { ([3; 32], 1, 5) } else { fetches.remove(0) };
                pr!("routing.net.BlockFetchFailed", n.rt.process_network_event(NetworkEvent::BlockFetchFailed { block_hash: h, peer_index: peer, block_id: id }));
            }
            Step::PopVerification => {
                if let Ok(ev) = n.r_ver.try_recv() {
                    let name = match &ev {
                        VerifyRequest::Transaction(_) => "verification.Transaction",
                        VerifyRequest::Transactions(_) => "verification.Transactions",
                        VerifyRequest::Block(..) => "verification.Block",
                    };
                    pr!(name, n.vt.process_event(ev));
                }
            }
            Step::PopConsensus => {
                if let Ok(ev) = n.r_cons.try_recv() {
                    let name = match &ev {
                        ConsensusEvent::NewGoldenTicket { .. } => "consensus.NewGoldenTicket",
                        ConsensusEvent::BlockFetched { .. } => "consensus.BlockFetched",
                        ConsensusEvent::NewTransaction { .. } => "consensus.NewTransaction",
                        ConsensusEvent::NewTransactions { .. } => "consensus.NewTransactions",
                    };
                    pr!(name, n.ct.process_event(ev));
                }
            }
            Step::PopRouting => {
                if let Ok(ev) = n.r_rout.try_recv() {
                    let name = match &ev {
                        RoutingEvent::BlockchainUpdated(_) => "routing.BlockchainUpdated",
                        RoutingEvent::BlockFetchRequest(..) => "routing.BlockFetchRequest",
                        RoutingEvent::BlockchainRequest(_) => "routing.BlockchainRequest",
                    };
                    pr!(name, n.rt.process_event(ev));
                }
            }
            Step::PopMining => {
                if let Ok(ev) = n.r_miner.try_recv() {
                    pr!("mining.LongestChainBlockAdded", n.mt.process_event(ev));
                }
            }
            Step::RoutingTimer => {
                clock.fetch_add(5_000, Ordering::SeqCst);
                pr!("routing.timer", n.rt.process_timer_event(Duration::from_millis(5_000)));
            }
            Step::ConsensusTimer => {
                clock.fetch_add(6_000, Ordering::SeqCst);
                pr!("consensus.timer(bundle)", n.ct.process_timer_event(Duration::from_millis(6_000)));
            }
            Step::MiningTimer => {
                pr!("mining.timer", n.mt.process_timer_event(Duration::from_millis(100)));
            }
            Step::TxFromPeer => {
                let mut reserved = BTreeSet::new();
                let plan = TxPlan { payer: 2, payee: 0, amount: 700 + salt, fee: 900, max_inputs: 1, ts: 7_000_000 + salt };
                if let Some(mut tx) = build_honest_tx(builder, &plan, builder.tip().0 + 3, &mut reserved) {
                    add_path(&mut tx, &[2, 1]);
                    pr!("routing.net.msg.Transaction", n.rt.process_network_event(NetworkEvent::IncomingNetworkMessage { peer_index: 1, buffer: Message::Transaction(tx).serialize() }));
                }
            }
            Step::Bundle => {
                clock.fetch_add(6_000, Ordering::SeqCst);
                let ts = clock.load(Ordering::SeqCst);
                pr!("consensus.bundle_block", n.ct.bundle_block(ts, true));
            }
            Step::LocalGoldenTicket => {
                let (_, th) = n.tip();
                let gt = GoldenTicket::create(th, hash(&salt.to_be_bytes()), n.pk);
                let _ = n.mt.sender_to_mempool.try_send(ConsensusEvent::NewGoldenTicket { golden_ticket: gt });
            }
            Step::KeyListFromPeer => {
                pr!("routing.net.msg.KeyListUpdate", n.rt.process_network_event(NetworkEvent::IncomingNetworkMessage { peer_index: 1, buffer: Message::KeyListUpdate(vec![key(3).0]).serialize() }));
            }
            Step::ServicesFromPeer => {
                pr!("routing.net.msg.Services", n.rt.process_network_event(NetworkEvent::IncomingNetworkMessage { peer_index: 1, buffer: Message::Services(vec![]).serialize() }));
            }
            Step::GhostRequestFromPeer => {
                pr!("routing.net.msg.GhostChainRequest", n.rt.process_network_event(NetworkEvent::IncomingNetworkMessage { peer_index: 1, buffer: Message::GhostChainRequest(1, chain[0].hash, [0; 32]).serialize() }));
            }
            Step::ChainRequestFromPeer => {
                let mut b = vec![0u8; 72];
                b[7] = 1;
                b[8..40].copy_from_slice(&chain[0].hash);
                let mut buf = vec![5u8];
                buf.extend(b);
                pr!("routing.net.msg.BlockchainRequest", n.rt.process_network_event(NetworkEvent::IncomingNetworkMessage { peer_index: 1, buffer: buf }));
            }
            Step::ApiFromPeer => {
                let m = Message::ApplicationMessage(saito_core::core::msg::api_message::ApiMessage { msg_index: 7, data: vec![1, 2, 3] });
                pr!("routing.net.msg.ApplicationMessage", n.rt.process_network_event(NetworkEvent::IncomingNetworkMessage { peer_index: 1, buffer: m.serialize() }));
            }
            Step::BogusBlockFromPeer => {
                pr!("routing.net.BlockFetched", n.rt.process_network_event(NetworkEvent::BlockFetched { block_hash: [8; 32], block_id: 44, peer_index: 1, buffer: vec![1, 2, 3, 4] }));
            }
            Step::Disconnect => {
                pr!("routing.net.PeerDisconnected", n.rt.process_network_event(NetworkEvent::PeerDisconnected { peer_index: 1, disconnect_type: PeerDisconnectType::InternalDisconnect }));
            }
            Step::ConsensusAsksForChain => {
                pr!("routing.BlockchainRequest", n.rt.process_event(RoutingEvent::BlockchainRequest(1)));
            }
            Step::ConsensusAsksForBlock => {
                pr!("routing.BlockFetchRequest", n.rt.process_event(RoutingEvent::BlockFetchRequest(0, [9; 32], 9)));
            }
            Step::StunPeer => {
                pr!("routing.net.AddStunPeer", n.rt.process_network_event(NetworkEvent::AddStunPeer { peer_index: 55, public_key: key(6).0 }));
                pr!("routing.net.RemoveStunPeer", n.rt.process_network_event(NetworkEvent::RemoveStunPeer { peer_index: 55 }));
            }
        }
        while n.r_stat.try_recv().is_ok() {}
    }
    let _ = state(&n, 0);
    let _ = hold(&n, 0, false);
    first_panic
}

/// `all`: every observation of the same event sequence (all probes). An inversion h -> L is excused only
/// if *all* acquisitions that involve the pair {h, L} - in either order, by any handler - happen
/// under one common outer lock that precedes both and is write-held: a lock held by this handler
/// alone does not serialise it against a handler that takes the pair without that lock.
fn judge(o: &Obs, all: &[Obs]) -> Option<(String, String)> {
    let rl = RANK[o.acquiring];
    for (h, _w) in &o.held {
        let rh = RANK[*h];
        if rh > rl {
            let serialised = o.held.iter().filter(|(x, w)| *w && RANK[*x] < rl && RANK[*x] < rh).any(|(x, _)| {
                all.iter()
                    .filter(|o2| (o2.acquiring == o.acquiring && o2.held.iter().any(|(y, _)| y == h)) || (o2.acquiring == *h && o2.held.iter().any(|(y, _)| *y == o.acquiring)))
                    .all(|o2| o2.held.iter().any(|(y, w)| y == x && *w))
            });
            if !serialised {
                let base = o.handler.split('(').next().unwrap_or(&o.handler).to_string();
                return Some((
                    format!("C20|inversion|{}->{}|in={}", LOCK_NAMES[*h], LOCK_NAMES[o.acquiring], base),
                    format!("{} acquires the {} lock (rank {}) while holding the {} lock (rank {}); held at that moment: {:?}", o.handler, LOCK_NAMES[o.acquiring], rl, LOCK_NAMES[*h], rh, o.held.iter().map(|(x, w)| format!("{}({})", LOCK_NAMES[*x], if *w { "write" } else { "read" })).collect::<Vec<_>>()),
                ));
            }
        }
    }
    if o.stuck {
        return Some((format!("C20|handler_cannot_progress_after_release|{}", o.handler), format!("{} stayed pending after the probed lock {} was released (re-entrant acquisition)", o.handler, LOCK_NAMES[o.acquiring])));
    }
    None
}

#[derive(Debug, Default)]
pub struct Info {
    pub observations: usize,
    pub handlers: BTreeSet<String>,
    pub pairs: BTreeSet<(usize, usize)>,
}

pub fn run_case(case: &Case, pre: &Built) -> (Vec<(String, String)>, Info, Vec<Obs>) {
    let mut info = Info::default();
    let mut v: Vec<(String, String)> = vec![];
    let mut all: Vec<Obs> = vec![];
    for l in 0..5 {
        for write in [true, false] {
            let mut rec = vec![];
            if let Some((site, msg)) = run_pass(&case.steps, l, write, pre, &mut rec, &mut info.handlers, case.lite) {
                v.push((format!("C20|panic|site={site}"), format!("a handler panicked at {site} while lock {} was probed: {msg}", LOCK_NAMES[l])));
            }
            for o in rec {
                info.observations += 1;
                for (h, _) in &o.held {
                    info.pairs.insert((*h, o.acquiring));
                }
                all.push(o);
            }
        }
    }
    for o in &all {
        if let Some(x) = judge(o, &all) {
            if !v.iter().any(|y| y.0 == x.0) {
                v.push(x);
            }
        }
    }
    (v, info, all)
}

fn eval(c: &mut Ctx, case: &Case, pre: &Built, counting: bool) -> Vec<(String, String)> {
    let (v, info, all) = run_case(case, pre);
    if counting {
        c.evals(info.observations.max(1) as u64);
        for o in &all {
            if !o.held.is_empty() {
                c.nontrivial(&(o.handler.clone(), o.acquiring, o.held.clone()));
            }
            if o.reentrant {
                c.class(&format!("reentrant_{}_in_{}", LOCK_NAMES[o.acquiring], o.handler.split('(').next().unwrap_or("?")));
                continue;
            }
            c.class(&format!("acquires_{}", LOCK_NAMES[o.acquiring]));
        }
        let hs = c.extra.entry("handlers_driven".into()).or_insert(json!([]));
        let mut set: BTreeSet<String> = hs.as_array().map(|a| a.iter().filter_map(|x| x.as_str().map(|s| s.to_string())).collect()).unwrap_or_default();
        set.extend(info.handlers.iter().cloned());
        *hs = json!(set);
        let ps = c.extra.entry("held_then_acquired_pairs_observed".into()).or_insert(json!([]));
        let mut set: BTreeSet<String> = ps.as_array().map(|a| a.iter().filter_map(|x| x.as_str().map(|s| s.to_string())).collect()).unwrap_or_default();
        set.extend(info.pairs.iter().map(|(h, a)| format!("{}->{}", LOCK_NAMES[*h], LOCK_NAMES[*a])));
        *ps = json!(set);
        if let Some(o) = all.iter().find(|o| o.held.len() >= 2) {
            c.sample_class("multi", json!({"handler": o.handler, "acquiring": LOCK_NAMES[o.acquiring], "held": o.held.iter().map(|(x, w)| format!("{}({})", LOCK_NAMES[*x], if *w { "write" } else { "read" })).collect::<Vec<_>>()}));
        }
    }
    v
}

pub fn run(ctx: &mut Ctx) {
    ctx.rule = "event sequences over a node built from the real routing, verification, consensus and mining threads talking to a second node: the canonical flow (init, connect, handshake, chain request, header hashes, fetches, verification, block addition, router updates, miner events, transaction from a peer, local golden ticket, timer-driven and direct block production, key list / services / ghost-chain request / chain request / API message / bogus block / fetch failure / stun peer / disconnect) plus generated permutations and repetitions of those steps, with the probed node as a full node or (canonical flow and a quarter of the generated ones) as a lite node; each sequence is replayed ten times, once per probed lock and probing mode (harness holds the lock for writing, or for reading so that only write acquisitions block). oracle (lockdep-style): for every observed (held h, acquiring L): rank(h) < rank(L) with config 3 < blockchain 4 < mempool 5 < peers 6 < wallet 7, unless a lock preceding both is write-held; a handler that cannot progress after the probed lock is released is reported as a re-entrancy hazard. evaluations = observed acquisitions under contention. non-trivial = an acquisition with at least one other lock held; distinct = (handler, acquired lock, held set)".into();
    ctx.assumptions.push("Only the first acquisition of the probed lock in a handler invocation that has to wait is observed (per mode); call paths in saito-rust/src/main.rs, network_controller.rs, saito-spammer and the saito-wasm entry points are not driven (they need live sockets / a JS host): the claim is 'no inversion on any driven path'.".into());
    ctx.extra.insert("undriven_sites".into(), json!(["saito-rust/src/main.rs", "saito-rust/src/network_controller.rs", "saito-spammer/src/transaction_generator.rs", "saito-wasm/src/saitowasm.rs"]));
    let pre = prefix();
    let canon = Case { steps: canonical(), lite: false };
    ctx.samples.push(json!({"canonical_steps": canon.steps.len()}));
    for (k, w) in eval(ctx, &canon, &pre, true) {
        ctx.violation(&k, w, json!({"check": "canonical", "case": canon}));
    }
    // the same flow with the probed node running as a lite node (ghost chain instead of header hashes)
    let canon_lite = Case { steps: canonical(), lite: true };
    for (k, w) in eval(ctx, &canon_lite, &pre, true) {
        ctx.violation(&k, w, json!({"check": "canonical_lite", "case": canon_lite}));
    }
    let strat = (proptest::collection::vec((0usize..ALL_STEPS.len()).prop_map(|i| ALL_STEPS[i]), 0..30), prop_oneof![3 => Just(false), 1 => Just(true)]).prop_map(|(extra, lite)| {
        // the canonical prefix brings the node into a connected, syncing state; then generated steps
        let mut steps = canonical()[..20].to_vec();
        steps.extend(extra);
        Case { steps, lite }
    });
    let cases = ctx.tier.pick(300u32, 5000);
    pbt_run(ctx, "generated_flows", cases, strat, |c, case, counting| eval(c, case, &pre, counting));
}

pub fn replay(ctx: &mut Ctx, v: &serde_json::Value) -> bool {
    let case: Case = match serde_json::from_value(v.get("case").cloned().unwrap_or(v.clone())) {
        Ok(c) => c,
        Err(_) => return false,
    };
    let pre = prefix();
    for (k, w) in eval(ctx, &case, &pre, true) {
        ctx.violation(&k, w, json!({"check": "replay", "case": case}));
    }
    true
}

#[allow(dead_code)]
fn _u(_: MiningEvent) -> u64 {
    digest(&0u8)
}
