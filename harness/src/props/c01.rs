//! C01 — only authorised, existing, unspent outputs are ever spent: every edit of the adversarial
//! catalogue, in every chain-state class, is refused by the pool entry points and by block
//! validation; the unedited transaction is accepted.

use std::collections::BTreeSet;
use std::sync::Arc;

use proptest::prelude::*;
use saito_core::core::consensus::blockchain::Blockchain;
use saito_core::core::consensus::mempool::Mempool;
use saito_core::core::consensus::peers::peer_collection::PeerCollection;
use saito_core::core::consensus::transaction::{Transaction, TransactionType};
use saito_core::core::consensus_thread::ConsensusEvent;
use saito_core::core::defs::*;
use saito_core::core::verification_thread::VerificationThread;
use serde::{Deserialize, Serialize};
use serde_json::json;
use tokio::sync::RwLock;

use crate::adversary::*;
use crate::chain::*;
use crate::ctx::{block_on, catch, digest, pbt_run, Ctx, Outcome};
use crate::deliver::*;
use crate::observe::*;
use crate::refmodel::*;
use crate::world::*;

#[derive(Debug, Clone, Serialize, Deserialize, PartialEq, Eq, Hash)]
pub struct Case {
    pub hist: HistSpec,
    pub attacker: u8,
    pub victim: u8,
    /// number of honest filler transactions next to the edited one in the attacker's block
    pub fillers: u8,
    /// restrict to these edits (empty = whole catalogue)
    pub edits: Vec<TxEdit>,
}

#[derive(Debug, Default)]
pub struct Info {
    pub class: String,
    pub verdicts: usize,
    pub discarded: usize,
    pub spent_outputs: usize,
    pub base_accepted: bool,
    pub offchain_judged: bool,
    pub nontrivial: Vec<(TxEdit, &'static str)>,
}

/// pool entry 2: the verification thread's transaction path, driven for real.
fn verify_layer_accepts(node: &mut Node, tx: Transaction) -> Outcome<bool> {
    let gp = node.ncfg.gp;
    let chain = std::mem::replace(&mut node.chain, Blockchain::new(node.wallet.clone(), gp, 0, 60));
    let lock = Arc::new(RwLock::new(chain));
    let (s_cons, mut r_cons) = tokio::sync::mpsc::channel::<ConsensusEvent>(64);
    let (s_stat, _r_stat) = tokio::sync::mpsc::channel::<String>(64);
    let sv = |n: &str| StatVariable::new(n.to_string(), STAT_BIN_COUNT, s_stat.clone());
    let mut vt = VerificationThread {
        sender_to_consensus: s_cons,
        blockchain_lock: lock.clone(),
        peer_lock: Arc::new(RwLock::new(PeerCollection::default())),
        wallet_lock: node.wallet.clone(),
        processed_txs: sv("a"),
        processed_blocks: sv("b"),
        processed_msgs: sv("c"),
        invalid_txs: sv("d"),
        stat_sender: s_stat.clone(),
    };
    let out = catch(|| block_on(vt.verify_tx(tx)));
    let accepted = matches!(r_cons.try_recv(), Ok(ConsensusEvent::NewTransaction { .. }));
    drop(vt);
    node.chain = Arc::try_unwrap(lock).ok().expect("sole owner").into_inner();
    match out {
        Outcome::Returned(()) => Outcome::Returned(accepted),
        Outcome::Panicked(a, b) => Outcome::Panicked(a, b),
    }
}

fn pool_layer_accepts(node: &Node, tx: Transaction) -> Outcome<bool> {
    let sig = tx.signature;
    catch(|| {
        block_on(async {
            let mut mp = Mempool::new(node.wallet.clone());
            mp.add_transaction_if_validates(tx, &node.chain).await;
            mp.transactions.contains_key(&sig)
        })
    })
}

pub fn state_class(tip_id: u64, gp: u64, reorgs: usize) -> &'static str {
    if tip_id > gp + 1 {
        "after_window_wrap"
    } else if reorgs > 0 {
        "after_reorg"
    } else {
        "fresh"
    }
}

pub fn run_case(case: &Case) -> (Vec<(String, String)>, Info) {
    let mut info = Info::default();
    let mut v: Vec<(String, String)> = vec![];
    let built = block_on(build_history(&case.hist));
    let table = BlockTable::from_blocks(&built.blocks);
    // the victim node receives every block in creation order (forks => reorganisations)
    let mut d = Deliverer::new(Node::new(case.hist.ncfg, 6), 10_000);
    let mut reorgs = 0;
    for b in &built.blocks {
        if is_rootless(&d.node, &table, b) {
            // a branch whose fork point has been purged goes through add_block's out-of-order branch
            // (open finding F10); what the node does afterwards is that finding's consequence
            info.class = "history_through_finding_F10(not judged)".into();
            return (v, info);
        }
        for o in d.deliver(b) {
            if o.tip_after.1 != o.tip_before.1 && o.tip_before.1 != [0; 32] {
                if let Some(nb) = table.by_hash.get(&o.tip_after.1) {
                    if nb.previous_block_hash != o.tip_before.1 {
                        reorgs += 1;
                    }
                }
            }
        }
        if d.dead {
            return (v, info);
        }
    }
    let mut node = d.node;
    let (tip_id, tip_hash) = node.tip();
    let path = match table.path(&tip_hash) {
        Some(p) => p,
        None => return (v, info),
    };
    let (ledger, _) = RefLedger::replay(case.hist.ncfg.gp, &path);
    info.class = state_class(tip_id, case.hist.ncfg.gp, reorgs).to_string();
    info.spent_outputs = path
        .iter()
        .flat_map(|b| b.transactions.iter())
        .filter(|t| t.transaction_type == TransactionType::Normal)
        .map(|t| t.from.iter().filter(|s| s.amount > 0).count())
        .sum();
    if path.is_empty() {
        return (v, info);
    }
    let pts = path.last().unwrap().timestamp;
    let ts = pts + 2 * case.hist.ncfg.heartbeat + 50;
    let for_block = tip_id + 1;
    let (spent, expired) = spent_and_expired(&node, for_block);
    let edits: Vec<TxEdit> = if case.edits.is_empty() {
        let mut e = TX_EDITS.to_vec();
        e.extend(TX_EDITS_EXTRA);
        e
    } else {
        case.edits.clone()
    };
    // outputs created only on abandoned branches: in a block the node accepted that is not on the
    // path of its tip, and not (by coordinates, owner and amount) an output of the path itself
    let on_path: BTreeSet<SaitoHash> = path.iter().map(|b| b.hash).collect();
    let offchain: Vec<saito_core::core::consensus::slip::Slip> = built
        .blocks
        .iter()
        .filter(|b| !on_path.contains(&b.hash) && node.chain.blocks.contains_key(&b.hash))
        .flat_map(|b| b.transactions.iter())
        .filter(|t| t.transaction_type == TransactionType::Normal)
        .flat_map(|t| t.to.iter())
        .filter(|s| s.amount > 0 && !ledger.utxo.contains_key(&ukey_of_slip(s)))
        .cloned()
        .collect();
    let creator = key(case.attacker);
    let max_id = tip_id + 2;

    for e in edits {
        let ctx = EditCtx {
            node: &node,
            attacker: case.attacker,
            victim: case.victim,
            for_block_id: for_block,
            ts,
            spent: &spent,
            expired: &expired,
            offchain: &offchain,
        };
        let bad = match edited_tx(e, &ctx) {
            Some(t) => t,
            None => {
                info.discarded += 1;
                continue;
            }
        };
        if e == TxEdit::TwiceInBlock {
            // both spends are valid alone; the block that carries both is not. Block::create refuses
            // to build it, so it is assembled by hand around an honest block that carries the first
            // spend at a generated position among the fillers.
            let s0 = bad.from[0].clone();
            let first_spend = tx_from_inputs(vec![s0.clone()], vec![(creator.0, s0.amount)], &creator, ts, vec![]);
            let mut txs = vec![];
            let mut reserved: BTreeSet<SaitoUTXOSetKey> = [s0.get_utxoset_key()].into_iter().collect();
            for f in 0..case.fillers {
                let plan = TxPlan { payer: (f + 2) % 4, payee: 0, amount: 1_000, fee: 10, max_inputs: 1, ts: ts + 10 + f as u64 };
                if let Some(t) = build_honest_tx(&node, &plan, for_block, &mut reserved) {
                    txs.push(t);
                }
            }
            let at = (case.victim as usize + case.fillers as usize) % (txs.len() + 1);
            txs.insert(at, first_spend);
            let gt = if density_needs_gt(&node) { block_on(node.mine_gt(tip_hash, &creator, 992)) } else { None };
            let mut blk = match block_on(node.make_block_as(&creator, tip_hash, ts, txs, gt)) {
                Ok(b) => b,
                Err(_) => {
                    info.discarded += 1;
                    continue;
                }
            };
            // the second spend goes behind the first one, directly or at the end
            let pos_first = blk.transactions.iter().position(|t| t.from.first().map(|s| s.get_utxoset_key()) == Some(s0.get_utxoset_key())).unwrap_or(0);
            let pos = if case.attacker % 2 == 0 { pos_first + 1 } else { blk.transactions.len() };
            blk.transactions.insert(pos.min(blk.transactions.len()), bad.clone());
            re_sign(&mut blk, &creator, true);
            // as a received block: through the wire format
            let blk = match saito_core::core::consensus::block::Block::deserialize_from_net(&blk.serialize_for_net(saito_core::core::consensus::block::BlockType::Full)) {
                Ok(mut b) => {
                    let _ = b.generate();
                    b
                }
                Err(_) => continue,
            };
            info.verdicts += 1;
            info.nontrivial.push((e, "block"));
            let (out, _steps) = guarded_add(&mut node, blk.clone(), 64);
            match out {
                StepOutcome::Result("added_lc") | StepOutcome::Result("added_side") => {
                    v.push((format!("C01|edit={:?}|layer=block", e), format!("block validation accepted a block in which two transactions (positions {} and {}) spend the same output, state class {}", pos_first, pos, info.class)));
                    return (v, info);
                }
                StepOutcome::Panicked(site, msg) => {
                    v.push((format!("C01|edit={:?}|layer=block|panic={}", e, site), format!("add_block panicked at {} on a block in which two transactions spend the same output: {}", site, msg)));
                    return (v, info);
                }
                StepOutcome::Result(_) => {}
                StepOutcome::Diverged(_) => return (v, info),
            }
            continue;
        }
        // (a) the reference model must judge it invalid (else the edit was a no-op here)
        let privileged = !matches!(bad.transaction_type, TransactionType::Normal | TransactionType::Bound | TransactionType::BlockStake | TransactionType::Vip | TransactionType::GoldenTicket);
        let issues = ledger.judge_tx(&bad, for_block, 0, &BTreeSet::new());
        if !privileged && issues.is_empty() {
            info.discarded += 1;
            continue;
        }
        if e == TxEdit::OffChainInput {
            info.offchain_judged = true;
        }
        let why: String = if privileged { "privileged_type".into() } else { issues.iter().map(|i| i.kind()).collect::<BTreeSet<_>>().into_iter().collect::<Vec<_>>().join("+") };

        // pool layers
        for (layer, out) in [
            ("pool", pool_layer_accepts(&node, bad.clone())),
            ("verify", verify_layer_accepts(&mut node, bad.clone())),
        ] {
            info.verdicts += 1;
            info.nontrivial.push((e, layer));
            match out {
                Outcome::Returned(false) => {}
                Outcome::Returned(true) => v.push((
                    format!("C01|edit={:?}|layer={}", e, layer),
                    format!("{} layer admitted a transaction the reference model rejects ({}) in state class {}", layer, why, info.class),
                )),
                Outcome::Panicked(site, msg) => v.push((
                    format!("C01|edit={:?}|layer={}|panic={}", e, layer, site),
                    format!("{} layer panicked at {} on edit {:?}: {}", layer, site, e, msg),
                )),
            }
        }
        // block layer: attacker-built block (header consistent with the invalid content)
        let mut txs = vec![];
        let mut reserved: BTreeSet<SaitoUTXOSetKey> = bad.from.iter().filter(|s| s.amount > 0).map(|s| s.get_utxoset_key()).collect();
        for f in 0..case.fillers {
            let plan = TxPlan {
                payer: (f + 2) % 4,
                payee: 0,
                amount: 1_000,
                fee: 10,
                max_inputs: 1,
                ts: ts + 10 + f as u64,
            };
            if let Some(t) = build_honest_tx(&node, &plan, for_block, &mut reserved) {
                txs.push(t);
            }
        }
        txs.push(bad.clone());
        let gt = if density_needs_gt(&node) { block_on(node.mine_gt(tip_hash, &creator, 991)) } else { None };
        let blk = match block_on(node.make_block_as(&creator, tip_hash, ts, txs, gt)) {
            Ok(b) => b,
            Err(_) => {
                // the producer itself refused (e.g. duplicate input detected at create): counts as refused
                info.verdicts += 1;
                continue;
            }
        };
        info.verdicts += 1;
        info.nontrivial.push((e, "block"));
        let before = block_on(snapshot(&node, max_id));
        let (out, _steps) = guarded_add(&mut node, blk.clone(), 64);
        match out {
            StepOutcome::Result("added_lc") | StepOutcome::Result("added_side") => {
                v.push((
                    format!("C01|edit={:?}|layer=block", e),
                    format!("block validation accepted a block carrying a transaction the reference model rejects ({}) in state class {} ({} fillers)", why, info.class, case.fillers),
                ));
                // the victim is polluted now: rebuild it from the delivered history
                let mut d2 = Deliverer::new(Node::new(case.hist.ncfg, 6), 10_000);
                for b in &built.blocks {
                    d2.deliver(b);
                }
                if d2.dead || d2.node.tip() != (tip_id, tip_hash) {
                    return (v, info);
                }
                node = d2.node;
            }
            StepOutcome::Result(_) => {
                let after = block_on(snapshot(&node, max_id));
                if !snapshot_diff(&before, &after).is_empty() {
                    // C04 matter; stop exploring this case
                    return (v, info);
                }
            }
            StepOutcome::Panicked(site, msg) => {
                v.push((
                    format!("C01|edit={:?}|layer=block|panic={}", e, site),
                    format!("add_block panicked at {} on a block carrying edit {:?}: {}", site, e, msg),
                ));
                return (v, info);
            }
            StepOutcome::Diverged(_) => return (v, info),
        }
    }

    // (b) non-vacuity: an honest spend is admitted by both pool layers and its block is accepted
    let mut reserved = BTreeSet::new();
    let base = (0u8..4).find_map(|p| {
        build_honest_tx(
            &node,
            &TxPlan {
                payer: p,
                payee: (p + 1) % 4,
                amount: 500,
                fee: 20,
                max_inputs: 2,
                ts: ts + 500,
            },
            for_block,
            &mut reserved,
        )
    });
    if let Some(base) = base {
        let p1 = pool_layer_accepts(&node, base.clone());
        let p2 = verify_layer_accepts(&mut node, base.clone());
        let gt = if density_needs_gt(&node) { block_on(node.mine_gt(tip_hash, &creator, 992)) } else { None };
        if let Ok(blk) = block_on(node.make_block_as(&creator, tip_hash, ts + 600, vec![base], gt)) {
            let (out, _) = guarded_add(&mut node, blk, 64);
            // the pool entries must admit the honest spend (non-vacuity of the refusals above); whether
            // the producer's block is accepted is C07's subject and only classified here
            let ok = matches!(p1, Outcome::Returned(true)) && matches!(p2, Outcome::Returned(true));
            info.base_accepted = ok && matches!(out, StepOutcome::Result("added_lc"));
            if !ok {
                v.push((
                    "C01|honest_spend_refused".into(),
                    format!("an honest spend was refused by a pool entry: pool={:?} verify={:?} (block {})", p1.ok(), p2.ok(), out.name()),
                ));
            }
        }
    }
    (v, info)
}

/// Does a block on the node's tip need a golden ticket to satisfy the density rule?
pub fn density_needs_gt(node: &Node) -> bool {
    let mut h = node.chain.get_latest_block_hash();
    let mut c = 0;
    let mut depth = 0;
    while depth < 5 {
        match node.chain.blocks.get(&h) {
            Some(b) => {
                if b.has_golden_ticket {
                    c += 1;
                }
                depth += 1;
                h = b.previous_block_hash;
            }
            None => break,
        }
    }
    (depth >= 5 && c < 2) || (depth == 4 && c < 1)
}

fn eval(c: &mut Ctx, case: &Case, counting: bool) -> Vec<(String, String)> {
    let (v, info) = run_case(case);
    if counting {
        c.evals(info.verdicts.max(1) as u64);
        c.discarded += info.discarded as u64;
        if !info.class.is_empty() {
            c.class(&format!("state={}", info.class));
        }
        if info.base_accepted {
            c.class("honest_spend_accepted");
        }
        if info.offchain_judged {
            c.class("spend_of_abandoned_branch_output_judged");
        }
        if info.spent_outputs >= 1 {
            let pos = case.fillers.min(3);
            for (e, layer) in &info.nontrivial {
                c.nontrivial(&(*e, *layer, info.class.clone(), pos, case.hist.ncfg.gp));
            }
        }
        c.sample_class(&info.class, json!({"state_class": info.class, "verdicts": info.verdicts, "discarded_noop_edits": info.discarded, "case": case}));
    }
    v
}

pub fn arb_case(max_blocks: usize) -> impl Strategy<Value = Case> {
    (arb_forked_hist(max_blocks), 0u8..3, 0u8..3, 0u8..4).prop_map(|(mut hist, attacker, victim, fillers)| {
        hist.ncfg.loading_completed = true;
        // everybody owns something
        hist.issuance.extend([(0u8, 40_000_000u64), (1, 50_000_000), (2, 60_000_000), (3, 70_000_000)]);
        Case {
            hist,
            attacker,
            victim: (attacker + 1 + victim % 2) % 3,
            fillers,
            edits: vec![],
        }
    })
}

pub fn run(ctx: &mut Ctx) {
    ctx.rule = "honest (forked) histories of 1..3*gp+3 blocks with fees, golden tickets and rebroadcasts bring a victim node into a state class {fresh, after_reorg, after_window_wrap} (gp in {4,5,6,8,12,100}); then every edit of the catalogue (forged/missing signature, mutated after signing, foreign-owned extra/only input, non-existent, inflated, expired, already-spent, duplicated input inside one transaction and across two transactions of one block, overspend plain and via 2^64 wrap, privileged types Fee/SPV/ATR/Issuance/Vip/BlockStake/Bound used to mint) is built from the victim's real ledger; oracle: the independent reference ledger must judge it invalid (else discarded as a no-op), then Mempool::add_transaction_if_validates, VerificationThread::verify_tx and add_block of an attacker-built block (0..3 honest filler transactions) must all refuse it, and an honest spend must be accepted by all three. evaluations = verdicts. non-trivial = chain has >= 1 spent output; distinct = (edit, layer, state class, filler count, gp)".into();
    let cases = ctx.tier.pick(220u32, 8_000);
    pbt_run(ctx, "edit_catalogue", cases, arb_case(28), |c, case, counting| eval(c, case, counting));
}

pub fn replay(ctx: &mut Ctx, v: &serde_json::Value) -> bool {
    let case: Case = match serde_json::from_value(v.get("case").cloned().unwrap_or(v.clone())) {
        Ok(c) => c,
        Err(_) => return false,
    };
    for (k, w) in eval(ctx, &case, true) {
        ctx.violation(&k, w, json!({"check": "replay", "case": case}));
    }
    true
}

#[allow(dead_code)]
fn _u() -> u64 {
    digest(&0u8)
}
