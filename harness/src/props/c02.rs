//! C02 — token supply is conserved (no inflation, no silent loss), in unbounded arithmetic.

use proptest::prelude::*;
use saito_core::core::consensus::slip::SlipType;
use saito_core::core::consensus::transaction::TransactionType;
use serde::{Deserialize, Serialize};
use serde_json::json;

use crate::chain::*;
use crate::ctx::{block_on, digest, pbt_run, Ctx};
use crate::deliver::*;
use crate::observe::*;
use crate::refmodel::*;
use crate::world::*;

#[derive(Debug, Clone, Serialize, Deserialize, PartialEq, Eq, Hash)]
pub struct Case {
    pub hist: HistSpec,
}

#[derive(Debug, Default)]
pub struct Info {
    pub deep_fork_seen: bool,
    /// footprint of finding F47 seen in the node's utxoset (see observe::phantom_rebroadcast_input)
    pub phantom_seen: Option<String>,
    pub blocks_checked: usize,
    pub fee_txs: usize,
    pub payouts: usize,
    pub reorgs: usize,
    pub wraps: u64,
    pub atr_txs: usize,
    pub atr_payout_blocks: usize,
    pub extreme_amounts: bool,
}

/// Would the rebroadcast payout arithmetic of block `b` (child of `parent`) leave u64?
/// amount * (1 + treasury / (gp * avg_rebroadcast)) >= 2^64 for some output of the block that is
/// being rebroadcast. Computed from header values and the harness' own copy of the blocks.
fn atr_payout_overflows(b: &saito_core::core::consensus::block::Block, table: &BlockTable, gp: u64) -> bool {
    let parent = match table.by_hash.get(&b.previous_block_hash) {
        Some(p) => p,
        None => return false,
    };
    if b.id <= gp + 1 {
        return false;
    }
    let staked = gp as u128 * parent.avg_nolan_rebroadcast_per_block as u128;
    if staked == 0 {
        return false;
    }
    let mult = 1 + parent.treasury as u128 / staked;
    // the block being rebroadcast: ancestor at id b.id - gp - 1
    let mut cur = parent;
    while cur.id > b.id - gp - 1 {
        cur = match table.by_hash.get(&cur.previous_block_hash) {
            Some(p) => p,
            None => return false,
        };
    }
    cur.transactions
        .iter()
        .flat_map(|t| t.to.iter())
        .any(|s| s.amount as u128 * mult > u64::MAX as u128)
}

fn regime(b: &saito_core::core::consensus::block::Block) -> &'static str {
    let atr = b.transactions.iter().any(|t| t.transaction_type == TransactionType::ATR);
    if b.total_payout_atr > 0 {
        "atr_with_treasury_payout"
    } else if atr {
        "atr_no_payout"
    } else if b.total_fees_atr > 0 {
        "atr_dust_only"
    } else if b.has_fee_transaction {
        "fee_payout"
    } else {
        "plain"
    }
}

fn run_case_inner(case: &Case) -> (Vec<(String, String)>, Info) {
    let mut info = Info::default();
    let mut v = vec![];
    let built = block_on(build_history(&case.hist));
    let table = BlockTable::from_blocks(&built.blocks);
    let gp = case.hist.ncfg.gp;
    let issued: u128 = case.hist.issuance.iter().map(|(_, a)| *a as u128).sum::<u128>() + case.hist.treasury as u128;
    info.extreme_amounts = case.hist.issuance.iter().any(|(_, a)| *a >= (1 << 40));
    let mut d = Deliverer::new(Node::new(case.hist.ncfg, 6), 10_000);
    let mut seq: Vec<saito_core::core::consensus::block::Block> = built.blocks.clone();
    for (_, b, _) in &built.rejected_own {
        seq.push(b.clone());
    }
    for b in &seq {
        if is_rootless(&d.node, &table, b) {
            // fork point already purged: this delivery takes add_block's parentless-chain branch (F10)
            info.blocks_checked += 0;
            continue;
        }
        // how far below the tip does this block's branch leave the node's chain?
        {
            let tip_id = d.node.chain.get_latest_block_id();
            let mut cur = b.previous_block_hash;
            while let Some(nb) = d.node.chain.blocks.get(&cur) {
                if nb.in_longest_chain {
                    // F42: (1) the fork point lies more than a genesis period below the tip, or (2) the
                    // candidate segment is longer than two genesis periods, so that purging - which runs
                    // while the candidate chain is still being wound - removes the old chain's blocks
                    // before a late candidate block fails and the roll-back needs them
                    if tip_id.saturating_sub(nb.id) > gp || b.id.saturating_sub(nb.id) > 2 * gp {
                        info.deep_fork_seen = true;
                    }
                    break;
                }
                cur = nb.previous_block_hash;
            }
        }
        let outs = d.deliver(b);
        if info.phantom_seen.is_none() {
            info.phantom_seen = crate::observe::phantom_rebroadcast_input(&d.node.chain);
        }
        for o in &outs {
            match &o.outcome {
                StepOutcome::Panicked(site, msg) => {
                    if atr_payout_overflows(b, &table, gp) {
                        v.push((
                            "C02|atr_payout_overflows_u64".into(),
                            format!("block id {}: rebroadcast amount x payout multiplier exceeds 2^64 (wraps in release arithmetic); the node aborted at {}: {}", b.id, site, msg),
                        ));
                        return (v, info);
                    }
                    v.push((
                        format!("C02|node_aborts|site={}|regime={}", site, regime(b)),
                        format!("add_block panicked at {} on block id {} ({}): {}", site, b.id, regime(b), msg),
                    ));
                    return (v, info);
                }
                StepOutcome::Diverged(_) => return (v, info),
                _ => {}
            }
            if o.tip_after.1 != o.tip_before.1 && o.tip_before.1 != [0; 32] {
                if let Some(nb) = table.by_hash.get(&o.tip_after.1) {
                    if nb.previous_block_hash != o.tip_before.1 {
                        info.reorgs += 1;
                    }
                }
            }
            if o.tip_after.1 != o.tip_before.1 {
                // accepted onto the longest chain: supply, in u128, over the implementation's own utxoset
                info.blocks_checked += 1;
                let tipb = match table.by_hash.get(&o.tip_after.1) {
                    Some(b) => b,
                    None => continue,
                };
                match impl_supply_u128(&d.node.chain, gp) {
                    Some(s) => {
                        if s != issued && atr_payout_overflows(tipb, &table, gp) {
                            v.push((
                                "C02|atr_payout_overflows_u64".into(),
                                format!("block id {}: rebroadcast amount x payout multiplier exceeds 2^64; supply {} vs issued {}", tipb.id, s, issued),
                            ));
                            return (v, info);
                        }
                        if s != issued {
                            let diff = s as i128 - issued as i128;
                            v.push((
                                format!("C02|supply_{}|regime={}", if diff > 0 { "inflated" } else { "lost" }, regime(tipb)),
                                format!("after block id {} ({}): spendable in-window + treasury + graveyard + unpaid + fees = {} but {} was issued (diff {})", tipb.id, regime(tipb), s, issued, diff),
                            ));
                            return (v, info);
                        }
                    }
                    None => {}
                }
                // no accepted user transaction pays out more than it consumes (u128)
                for t in &tipb.transactions {
                    match t.transaction_type {
                        TransactionType::Normal | TransactionType::Bound | TransactionType::BlockStake | TransactionType::GoldenTicket | TransactionType::Vip => {
                            let tin: u128 = t.from.iter().filter(|s| s.slip_type != SlipType::Bound).map(|s| s.amount as u128).sum();
                            let tout: u128 = t.to.iter().filter(|s| s.slip_type != SlipType::Bound).map(|s| s.amount as u128).sum();
                            if tout > tin {
                                v.push(("C02|tx_pays_more_than_it_consumes".into(), format!("accepted block id {} has a user transaction with outputs {} > inputs {}", tipb.id, tout, tin)));
                            }
                            if tin > tout {
                                info.fee_txs += 1;
                            }
                        }
                        TransactionType::ATR => info.atr_txs += 1,
                        TransactionType::Fee => info.payouts += 1,
                        _ => {}
                    }
                }
                if tipb.total_payout_atr > 0 {
                    info.atr_payout_blocks += 1;
                }
                info.wraps = info.wraps.max(tipb.id / (gp + 1));
            }
        }
        if d.dead || !v.is_empty() {
            break;
        }
    }
    (v, info)
}

pub fn run_case(case: &Case) -> (Vec<(String, String)>, Info) {
    let (mut v, info) = run_case_inner(case);
    if let (Some(ph), false) = (&info.phantom_seen, info.deep_fork_seen) {
        // finding F47: unwinding a block whose rebroadcasts carried a treasury payout (multiplier > 1)
        // re-inserts their payout-adjusted inputs - keys that never were outputs - as spendable; the
        // node's own supply check counts them next to the originals and aborts
        for x in v.iter_mut() {
            x.1 = format!("{} [{}; {}]", x.1, x.0, ph);
            x.0 = "C02|unwound_rebroadcast_leaves_payout_adjusted_input".into();
        }
    }
    if info.deep_fork_seen {
        // finding F42: a branch that leaves the chain more than a genesis period below the tip is
        // wound without utxo validation (the node takes its supply for 'not loaded' once the unwind
        // reaches below the purge horizon plus a genesis period) and purging runs while the
        // candidate chain is still being wound
        for x in v.iter_mut() {
            x.1 = format!("{} [{}]", x.1, x.0);
            x.0 = "C02|after_fork_deeper_than_genesis_period".into();
        }
    }
    (v, info)
}

fn eval(c: &mut Ctx, case: &Case, counting: bool) -> Vec<(String, String)> {
    let (v, info) = run_case(case);
    if counting {
        c.evals(info.blocks_checked.max(1) as u64);
        if info.fee_txs >= 1 && info.payouts >= 1 {
            c.nontrivial(&digest(case));
        }
        if info.reorgs > 0 {
            c.class("with_reorg");
        }
        if info.wraps > 0 {
            c.class("with_window_wrap");
        }
        if info.atr_txs > 0 {
            c.class("with_rebroadcast");
        }
        if info.atr_payout_blocks > 0 {
            c.class("with_treasury_payout_multiplier");
        }
        if info.extreme_amounts {
            c.class("extreme_amounts");
        }
        if case.hist.treasury > 0 {
            c.class("genesis_treasury>0");
        }
        if info.atr_txs > 0 && info.payouts > 0 {
            c.sample_class(if info.atr_payout_blocks > 0 { "payout" } else { "atr" }, json!({"case": case, "info": format!("{:?}", info)}));
        }
    }
    v
}

pub fn arb_case(max_blocks: usize) -> impl Strategy<Value = Case> {
    (arb_forked_hist(max_blocks), any::<bool>()).prop_map(|(mut hist, rich)| {
        hist.ncfg.loading_completed = true;
        if rich {
            hist.issuance.extend([(0u8, 400_000_000u64), (1, 500_000_000), (2, 600_000_000)]);
        }
        // every eighth position: a two-block side chain [valid sibling of the previous block, child with
        // an input that was already spent / never existed]. Its second block makes the side chain
        // longer, the reorganisation fails part-way, and the history returns to the honest block:
        // supply must still be what was issued after the blocks accepted from then on.
        let n = hist.blocks.len();
        for i in 1..n {
            if i % 8 == 4 && i + 2 < n {
                let sel = hist.blocks[i].dt as usize + i;
                {
                    let s1 = &mut hist.blocks[i];
                    s1.parent = None;
                    s1.back = Some(1);
                    s1.bad_tx = None;
                    s1.corrupt = None;
                }
                {
                    let s2 = &mut hist.blocks[i + 1];
                    s2.parent = None;
                    s2.back = None;
                    s2.bad_tx = Some((
                        match sel % 6 {
                            5 => crate::adversary::TxEdit::OverspendWrap, // outputs that sum to 2^64 + the input
                            4 => crate::adversary::TxEdit::StakeTypeSpentInput, // a staking-typed re-spend
                            0 => crate::adversary::TxEdit::SpentInput,
                            1 => crate::adversary::TxEdit::NonExistentInput,
                            2 => crate::adversary::TxEdit::ExpiredInput, // an output that left the window with the previous block
                            _ => crate::adversary::TxEdit::TwiceInBlock, // two valid spends of one (rebroadcast, if any) output in one block
                        },
                        1,
                        0,
                    ));
                }
                let r = &mut hist.blocks[i + 2];
                r.parent = None;
                r.back = Some(2);
            }
        }
        Case { hist }
    })
}

pub fn run(ctx: &mut Ctx) {
    ctx.rule = "histories of honestly produced blocks (linear and forked, up to 40 blocks; every eighth position a two-block side chain whose second block spends a spent / non-existent / expired output or carries two spends of one output or a staking-typed re-spend of a spent output or outputs summing to 2^64 + the input, so that a reorganisation fails part-way and the history continues on the honest chain; gp in {4,5,6,8,12,100} so the rebroadcast window wraps several times; fees 0..4e8, routing paths, golden-ticket payouts, genesis treasury 0 or up to 1e12 so the rebroadcast payout multiplier exceeds 1 and the 5% cap regime is reached, issuance amounts from 1 nolan to 2^58, with any genesis treasury) delivered to a node; after every block accepted onto the longest chain: sum (u128) of spendable in-window non-bound outputs of the node's own utxoset + tip treasury + graveyard + previous_block_unpaid + total_fees == amount issued in the genesis block; every accepted user transaction has outputs <= inputs in u128; the node's own supply check must not abort. evaluations = accepted blocks checked. non-trivial = history has >= 1 fee-paying transaction and >= 1 golden-ticket payout; distinct by case digest. (overflow-based minting by adversarial transactions is exercised in C01: edits Overspend / OverspendWrap)".into();
    let cases = ctx.tier.pick(500u32, 20_000);
    pbt_run(ctx, "supply", cases, arb_case(40), |c, case, counting| eval(c, case, counting));
}

pub fn replay(ctx: &mut Ctx, v: &serde_json::Value) -> bool {
    let case: Case = match serde_json::from_value(v.get("case").cloned().unwrap_or(v.clone())) {
        Ok(c) => c,
        Err(_) => return false,
    };
    for (k, w) in eval(ctx, &case, true) {
        ctx.violation(&k, w, json!({"check": "replay", "case": case}));
    }
    true
}
