//! C16 — the block-fetch scheduler is bounded, ordered and complete. Driven through the routing
//! layer only; fetch requests are observed at the I/O boundary.

use std::collections::{BTreeMap, BTreeSet};
use std::sync::atomic::{AtomicU64, Ordering};
use std::sync::Arc;

use proptest::prelude::*;
use saito_core::core::consensus::block::Block;
use saito_core::core::defs::*;
use saito_core::core::io::network_event::NetworkEvent;
use saito_core::core::msg::message::Message;
use saito_core::core::routing_thread::RoutingEvent;
use serde::{Deserialize, Serialize};
use serde_json::json;

use crate::chain::*;
use crate::ctx::{block_on, catch, digest, pbt_run, Ctx};
use crate::net::*;
use crate::world::*;

#[derive(Debug, Clone, Copy, Serialize, Deserialize, PartialEq, Eq, Hash)]
pub enum Op {
    /// peer announces block #h of the universe
    Announce { peer: u8, h: u8 },
    /// routing timer tick (2 s): selection round
    Tick,
    /// an in-flight fetch of the peer completes with the block: the oldest one (which = 0), or the
    /// which-th (fetches complete in any order)
    FetchOk {
        peer: u8,
        #[serde(default)]
        which: u8,
    },
    /// the oldest in-flight fetch of the peer fails
    FetchFail { peer: u8 },
    /// block #h arrives by another route (added directly) and the router is told
    Updated { h: u8 },
    /// the consensus thread asks the router for block #h without naming a peer
    /// (RoutingEvent::BlockFetchRequest(0, ..): a missing parent of a block that did not come from a
    /// peer); only if the node lacks the block
    ParentWanted { h: u8 },
}

#[derive(Debug, Clone, Serialize, Deserialize, PartialEq, Eq, Hash)]
pub struct Case {
    pub peers: u8,
    pub universe: u8,
    pub batch: u8,
    pub ops: Vec<Op>,
    /// 0: every peer answers its fetches. p > 0: peer p announces but never answers a fetch (neither
    /// success nor failure): whatever an answering peer announces must still arrive
    #[serde(default)]
    pub stalled: u8,
}

#[derive(Debug, Default)]
pub struct Info {
    pub steps: usize,
    pub requests: usize,
    pub failures: usize,
    pub completions: usize,
    pub max_in_flight: usize,
    pub quiescent_checked: bool,
}

struct Universe {
    blocks: Vec<Block>, // index 0 = genesis (held by the node), 1.. = announceable
}

fn universe(n: usize) -> Universe {
    // honest chain of n blocks plus a one-block fork at the end for equal heights
    let ncfg = NodeCfg { gp: 100, heartbeat: 100, social_stake: 0, loading_completed: true, prune: 8 };
    let mut blocks = vec![];
    for i in 0..n {
        blocks.push(BlockSpec {
            parent: if i == n - 1 && n >= 3 { Some((((n - 2) as u64) << 16).div_ceil(n as u64) as u16) } else { None },
            dt: 250 + i as u32,
            gt: i % 2 == 0,
            creator: 0,
            miner: 1,
            txs: vec![],
            bad_tx: None,
            corrupt: None, back: None,
        });
    }
    let spec = HistSpec { ncfg, treasury: 0, issuance: vec![(0, 1_000_000), (1, 2_000_000)], blocks, gt_policy: true };
    let built = block_on(build_history(&spec));
    Universe { blocks: built.blocks }
}

pub fn run_case(case: &Case, uni: &Universe) -> (Vec<(String, String)>, Info) {
    let mut info = Info::default();
    let mut v: Vec<(String, String)> = vec![];
    let ncfg = NodeCfg { gp: 100, heartbeat: 100, social_stake: 0, loading_completed: true, prune: 8 };
    let clock = Arc::new(AtomicU64::new(5_000_000));
    let mut n = NetNode::new(0, ncfg, clock.clone(), 0, case.batch.max(1) as usize, MemIO::new());
    let _ = n.init();
    n.add_direct(uni.blocks[0].clone());
    let npeers = case.peers.clamp(1, 3) as u64;
    for p in 1..=npeers {
        n.insert_connected_peer(p, p as u8, "http://peer/");
    }
    let nh = (case.universe as usize).clamp(1, uni.blocks.len() - 1);
    let batch = case.batch.max(1) as usize;
    // model
    let mut in_flight: BTreeMap<u64, Vec<(SaitoHash, u64)>> = BTreeMap::new(); // per peer, oldest first
    let mut announced: BTreeMap<u64, BTreeSet<SaitoHash>> = BTreeMap::new();
    let mut ever_failed: BTreeSet<(u64, SaitoHash)> = BTreeSet::new();
    let mut requested_ever: BTreeMap<SaitoHash, usize> = BTreeMap::new();
    let by_hash: BTreeMap<SaitoHash, &Block> = uni.blocks.iter().map(|b| (b.hash, b)).collect();
    let has = |n: &NetNode, h: &SaitoHash| -> bool {
        let c = block_on(n.chain_lock.read());
        let m = block_on(n.mempool_lock.read());
        c.blocks.contains_key(h) || m.blocks_queue.iter().any(|b| &b.hash == h)
    };

    let stalled: u64 = if (case.stalled as u64) <= npeers && npeers > 1 { case.stalled as u64 } else { 0 };
    let mut ops: Vec<Op> = case.ops.clone();
    // closing phase: answer everything (except for a stalled peer), tick until quiet
    let closing_from = ops.len();
    for _ in 0..(nh * npeers as usize + 4) {
        for p in 1..=npeers {
            ops.push(Op::FetchOk { peer: (p - 1) as u8, which: 0 });
        }
        ops.push(Op::Tick);
    }

    let mut delivered: BTreeSet<SaitoHash> = BTreeSet::new(); // blocks that reached the node from some peer or route
    for (step, op) in ops.iter().enumerate() {
        info.steps += 1;
        let mut opname = "";
        let mut delivered_from: Option<u64> = None;
        let mut rounds: Vec<std::collections::VecDeque<(SaitoHash, u64, String, u64)>> = vec![];
        let out = match *op {
            Op::Announce { peer, h } => {
                opname = "announce";
                let p = 1 + (peer as u64 % npeers);
                let b = &uni.blocks[1 + (h as usize % nh)];
                announced.entry(p).or_default().insert(b.hash);
                n.net_event(NetworkEvent::IncomingNetworkMessage { peer_index: p, buffer: Message::BlockHeaderHash(b.hash, b.id).serialize() })
            }
            Op::Tick => {
                opname = "tick";
                clock.fetch_add(2_000, Ordering::SeqCst);
                n.routing_timer(2_000)
            }
            Op::FetchOk { peer, which } => {
                opname = "fetch_ok";
                let p = 1 + (peer as u64 % npeers);
                if p == stalled {
                    continue;
                }
                let q = in_flight.entry(p).or_default();
                if q.is_empty() {
                    continue;
                }
                let (h, id) = q.remove(which as usize % q.len());
                info.completions += 1;
                delivered_from = Some(p);
                let buf = block_bytes(by_hash[&h]);
                delivered.insert(h);
                let mut o = n.net_event(NetworkEvent::BlockFetched { block_hash: h, block_id: id, peer_index: p, buffer: buf });
                rounds.push(n.take_fetches());
                let mut guard = 0;
                while o == HandlerOutcome::Ok && guard < 10_000 {
                    guard += 1;
                    let mut did = false;
                    for f in [NetNode::pop_verification as fn(&mut NetNode) -> Option<HandlerOutcome>, NetNode::pop_consensus, NetNode::pop_routing, NetNode::pop_mining] {
                        if let Some(r) = f(&mut n) {
                            did = true;
                            rounds.push(n.take_fetches());
                            if r != HandlerOutcome::Ok {
                                o = r;
                                break;
                            }
                        }
                    }
                    if !did {
                        break;
                    }
                }
                o
            }
            Op::FetchFail { peer } => {
                opname = "fetch_fail";
                let p = 1 + (peer as u64 % npeers);
                if p == stalled {
                    continue;
                }
                let q = in_flight.entry(p).or_default();
                if q.is_empty() {
                    continue;
                }
                let (h, id) = q.remove(0);
                info.failures += 1;
                ever_failed.insert((p, h));
                n.net_event(NetworkEvent::BlockFetchFailed { block_hash: h, block_id: id, peer_index: p })
            }
            Op::ParentWanted { h } => {
                opname = "parent_wanted";
                let b = &uni.blocks[1 + (h as usize % nh)];
                if has(&n, &b.hash) {
                    continue;
                }
                match catch(|| block_on(n.rt_process(RoutingEvent::BlockFetchRequest(0, b.hash, b.id)))) {
                    crate::ctx::Outcome::Returned(_) => HandlerOutcome::Ok,
                    crate::ctx::Outcome::Panicked(a, b) => HandlerOutcome::Panicked(a, b),
                }
            }
            Op::Updated { h } => {
                opname = "updated";
                let b = &uni.blocks[1 + (h as usize % nh)];
                let in_chain = |n: &NetNode, h: &SaitoHash| block_on(n.chain_lock.read()).blocks.contains_key(h);
                if !in_chain(&n, &b.hash) {
                    n.add_direct(b.clone());
                }
                if !in_chain(&n, &b.hash) {
                    continue; // parent missing: the block cannot arrive "by another route" yet
                }
                let hash = b.hash;
                delivered.insert(hash);
                match catch(|| block_on(n.rt_process(RoutingEvent::BlockchainUpdated(hash)))) {
                    crate::ctx::Outcome::Returned(_) => HandlerOutcome::Ok,
                    crate::ctx::Outcome::Panicked(a, b) => HandlerOutcome::Panicked(a, b),
                }
            }
        };
        if let HandlerOutcome::Panicked(site, msg) = out {
            v.push((format!("C16|panic|site={site}|op={opname}"), format!("step {step} ({opname}): handler panicked at {site}: {msg}")));
            break;
        }
        // observe the fetch requests of this step, one selection round at a time
        rounds.push(n.take_fetches());
        for reqs in rounds {
        let mut burst: BTreeMap<u64, Vec<(u64, SaitoHash)>> = BTreeMap::new();
        if std::env::var("VERIF_TRACE").is_ok() {
            eprintln!("step {step} {opname} {:?}: requests {:?} | in_flight {:?}", op, reqs.iter().map(|r| (r.1, r.3)).collect::<Vec<_>>(), in_flight.iter().map(|(p, f)| (*p, f.iter().map(|x| x.1).collect::<Vec<_>>())).collect::<Vec<_>>());
        }
        for (h, p, _url, id) in reqs {
            info.requests += 1;
            *requested_ever.entry(h).or_insert(0) += 1;
            let fl = in_flight.entry(p).or_default();
            if fl.iter().any(|(x, _)| *x == h) {
                let key = if delivered.contains(&h) { "C16|forgets_outstanding_fetch|requested_again" } else { "C16|same_block_in_flight_twice" };
                v.push((key.into(), format!("step {step} ({opname}): block id {id} requested from peer {p} while a fetch of it from that peer is still in flight")));
            }
            fl.push((h, id));
            burst.entry(p).or_default().push((id, h));
        }
        for (p, b) in &burst {
            // non-decreasing height within the selection round
            let b: Vec<(u64, SaitoHash)> = b.iter().filter(|(_, h)| !ever_failed.iter().any(|(_, fh)| fh == h)).cloned().collect();
            if b.is_empty() {
                continue;
            }
            if b.windows(2).any(|w| w[0].0 > w[1].0) {
                v.push(("C16|requests_not_in_height_order".into(), format!("step {step} ({opname}): requests to peer {p} are not in non-decreasing height order: {:?}", b.iter().map(|x| x.0).collect::<Vec<_>>())));
            }
            // no queued lower block is skipped (entries that failed before re-enter one round later)
            let max_req = b.iter().map(|x| x.0).max().unwrap();
            if let Some(ann) = announced.get(p) {
                for h in ann {
                    let blk = by_hash[h];
                    let flying = in_flight.get(p).map(|f| f.iter().any(|(x, _)| x == h)).unwrap_or(false);
                    if blk.id < max_req && !flying && !has(&n, h) && !ever_failed.iter().any(|(_, fh)| fh == h) && requested_ever.get(h).copied().unwrap_or(0) == 0 {
                        v.push(("C16|lower_block_skipped".into(), format!("step {step} ({opname}): peer {p} was asked for height {max_req} while announced, lacking, never requested height {} stays queued", blk.id)));
                    }
                }
            }
        }
        }
        let _ = delivered_from;
        for (p, fl) in &in_flight {
            info.max_in_flight = info.max_in_flight.max(fl.len());
            if fl.len() > batch {
                // fetches the scheduler has forgotten (their block arrived from another peer / by another route)
                let live = fl.iter().filter(|(h, _)| !delivered.contains(h)).count();
                let key = if live <= batch { "C16|forgets_outstanding_fetch|batch_exceeded" } else { "C16|in_flight_exceeds_batch" };
                v.push((key.into(), format!("step {step} ({opname}): {} fetches in flight for peer {p} with batch size {batch} ({} of them forgotten by the scheduler)", fl.len(), fl.len() - live)));
            }
        }
        let cnt = n.rt.blockchain_sync_state.get_fetching_block_count() as usize;
        let flying_total: usize = in_flight.values().map(|f| f.iter().filter(|(h, _)| !has(&n, h)).count()).sum();
        if cnt < flying_total.min(1) && flying_total > 0 && step < closing_from {
            // weak consistency: while fetches of lacking blocks are outstanding the scheduler knows about some
            v.push(("C16|fetching_count_zero_with_fetches_outstanding".into(), format!("step {step} ({opname}): get_fetching_block_count() = 0 while {flying_total} fetches of lacking blocks are in flight")));
        }
        if !v.is_empty() {
            break;
        }
    }
    if v.is_empty() {
        // quiescence: all fetches answered
        info.quiescent_checked = true;
        for (p, ann) in &announced {
            if *p == stalled {
                continue; // its window stays full of unanswered fetches: later blocks wait behind them
            }
            for h in ann {
                if !has(&n, h) && requested_ever.get(h).copied().unwrap_or(0) == 0 {
                    v.push(("C16|announced_block_never_requested".into(), format!("block id {} announced by peer {p} is lacking at quiescence and was never requested from anybody", by_hash[h].id)));
                }
            }
        }
        // with a stalled peer: what an answering peer announced must have arrived all the same
        if stalled != 0 {
            for (p, ann) in &announced {
                if *p == stalled {
                    continue;
                }
                for h in ann {
                    if !has(&n, h) {
                        v.push((
                            "C16|block_announced_by_answering_peer_never_arrives".into(),
                            format!("peer {stalled} never answers its fetches; block id {} was announced by peer {p}, which answers every fetch, and is still lacking at quiescence ({} requests for it in all)", by_hash[h].id, requested_ever.get(h).copied().unwrap_or(0)),
                        ));
                        break;
                    }
                }
            }
        }
        let cnt = n.rt.blockchain_sync_state.get_fetching_block_count();
        let lacking_announced = announced.values().flatten().filter(|h| !has(&n, h)).count();
        if lacking_announced == 0 && cnt != 0 {
            v.push(("C16|queue_not_empty_at_quiescence".into(), format!("every announced block is present but get_fetching_block_count() = {cnt}")));
        }
    }
    (v, info)
}

/// A block whose fetch always fails is retried only a bounded number of times - also when the
/// peer keeps announcing it again, and per peer when several peers announce it.
#[derive(Debug, Clone, Serialize, Deserialize, PartialEq, Eq, Hash)]
pub struct RetryCase {
    /// rounds (of 1800) at whose start peer 1 announces the failing block again
    pub reannounce_at: Vec<u16>,
    /// a second peer announces the same block (and fails as well)
    pub second_peer: bool,
}

fn run_retry_case(rc: &RetryCase, uni: &Universe) -> (Vec<(String, String)>, [usize; 2]) {
    let ncfg = NodeCfg { gp: 100, heartbeat: 100, social_stake: 0, loading_completed: true, prune: 8 };
    let clock = Arc::new(AtomicU64::new(5_000_000));
    let mut n = NetNode::new(0, ncfg, clock.clone(), 0, 2, MemIO::new());
    let _ = n.init();
    n.add_direct(uni.blocks[0].clone());
    n.insert_connected_peer(1, 1, "http://peer/");
    if rc.second_peer {
        n.insert_connected_peer(2, 2, "http://peer2/");
    }
    let b = &uni.blocks[1];
    n.net_event(NetworkEvent::IncomingNetworkMessage { peer_index: 1, buffer: Message::BlockHeaderHash(b.hash, b.id).serialize() });
    if rc.second_peer {
        n.net_event(NetworkEvent::IncomingNetworkMessage { peer_index: 2, buffer: Message::BlockHeaderHash(b.hash, b.id).serialize() });
    }
    let mut requests = [0usize; 2];
    let rounds = 1800u16;
    let again: BTreeSet<u16> = rc.reannounce_at.iter().map(|r| r % rounds).collect();
    for r in 0..rounds {
        if again.contains(&r) {
            n.net_event(NetworkEvent::IncomingNetworkMessage { peer_index: 1, buffer: Message::BlockHeaderHash(b.hash, b.id).serialize() });
        }
        let reqs = n.take_fetches();
        for (h, p, _u, id) in reqs {
            requests[(p as usize - 1).min(1)] += 1;
            n.net_event(NetworkEvent::BlockFetchFailed { block_hash: h, block_id: id, peer_index: p });
        }
        clock.fetch_add(2_000, Ordering::SeqCst);
        n.routing_timer(2_000);
    }
    let mut v = vec![];
    for (i, q) in requests.iter().enumerate() {
        if *q > 502 {
            v.push((
                format!("C16|unbounded_retries|reannounced={}", !again.is_empty() && i == 0),
                format!("a block whose fetch always fails was requested {q} times from peer {} in {rounds} rounds (bound MAX_RETRIES_PER_BLOCK + 2 = 502); the peer announced it again {} times", i + 1, if i == 0 { again.len() } else { 0 }),
            ));
        }
    }
    if requests[0] < 2 {
        v.push(("C16|no_retry_at_all".into(), format!("a failed fetch was never retried ({} requests)", requests[0])));
    }
    (v, requests)
}

fn check_retry_bound(ctx: &mut Ctx, uni: &Universe) {
    // directed: never announced again (the plain case), announced again in every round
    for rc in [RetryCase { reannounce_at: vec![], second_peer: false }, RetryCase { reannounce_at: (0..1800).collect(), second_peer: true }] {
        let (v, requests) = run_retry_case(&rc, uni);
        ctx.evals(1800);
        ctx.class("retry_bound_directed");
        ctx.samples.push(json!({"sub": "retry_bound", "reannouncements": rc.reannounce_at.len(), "second_peer": rc.second_peer, "requests_observed": requests, "bound_per_peer": 502}));
        if rc.reannounce_at.is_empty() {
            ctx.extra.insert("always_failing_block_requests".into(), json!(requests[0]));
        }
        for (k, w) in v {
            ctx.violation(&k, w, json!({"sub": "retry_bound", "retry_case": rc}));
        }
    }
    let cases = ctx.tier.pick(6u32, 60);
    let strat = (proptest::collection::vec(any::<u16>(), 0..6), any::<bool>()).prop_map(|(reannounce_at, second_peer)| RetryCase { reannounce_at, second_peer });
    pbt_run(ctx, "retry_bound", cases, strat, |c, rc, counting| {
        let (v, requests) = run_retry_case(rc, uni);
        if counting {
            c.evals(1800);
            c.class(if rc.reannounce_at.iter().any(|r| r % 1800 > 1002) { "retry_bound_reannounced_after_exhaustion" } else { "retry_bound_reannounced_before_exhaustion_only" });
            let _ = requests;
        }
        v
    });
}

fn eval(c: &mut Ctx, case: &Case, uni: &Universe, counting: bool) -> Vec<(String, String)> {
    let (v, info) = run_case(case, uni);
    if counting {
        c.evals(info.steps.max(1) as u64);
        if info.requests >= 2 && (info.failures > 0 || info.completions > 0) {
            c.nontrivial(&digest(case));
        }
        if info.failures > 0 {
            c.class("with_fetch_failure");
        }
        if info.max_in_flight as u8 >= case.batch.max(1) {
            c.class("batch_limit_reached");
        }
        if info.quiescent_checked {
            c.class("ran_to_quiescence");
        }
        if info.failures > 0 && info.completions > 1 {
            c.sample_class("mixed", json!({"case": case, "info": format!("{:?}", info)}));
        }
    }
    v
}

fn all_ops(peers: u8, hashes: u8) -> Vec<Op> {
    let mut v = vec![Op::Tick];
    for p in 0..peers {
        for h in 0..hashes {
            v.push(Op::Announce { peer: p, h });
        }
        v.push(Op::FetchOk { peer: p, which: 0 });
        v.push(Op::FetchFail { peer: p });
    }
    for h in 0..hashes {
        v.push(Op::Updated { h });
    }
    v
}

pub fn arb_op() -> impl Strategy<Value = Op> {
    prop_oneof![
        5 => (0u8..3, 0u8..8).prop_map(|(peer, h)| Op::Announce { peer, h }),
        2 => Just(Op::Tick),
        3 => (0u8..3, prop_oneof![2 => Just(0u8), 1 => 1u8..4]).prop_map(|(peer, which)| Op::FetchOk { peer, which }),
        1 => (0u8..8).prop_map(|h| Op::ParentWanted { h }),
        2 => (0u8..3).prop_map(|peer| Op::FetchFail { peer }),
        1 => (0u8..8).prop_map(|h| Op::Updated { h }),
    ]
}

pub fn run(ctx: &mut Ctx) {
    ctx.rule = "the scheduler is driven through the routing thread only (announcements as BlockHeaderHash messages from authenticated peers, 2 s timer ticks, BlockFetched with the real block, BlockFetchFailed, BlockchainUpdated after the block arrived by another route); fetch requests are read at InterfaceIO::fetch_block_from_peer. exhaustive: all operation sequences to depth D over 2 peers x 3 blocks (batch sizes 1 and 2), each followed by a closing phase that answers every fetch; random: sequences to length 60 over 3 peers x 8 real blocks (incl. two of equal height), batch in {1,2,3,10}. invariants: in flight per peer <= batch; requests of one selection round in non-decreasing height and no announced, lacking, never-requested lower block skipped; no block in flight twice for one peer; at quiescence every announced block is present or was requested; in a quarter of the random sequences one peer never answers a fetch, and whatever an answering peer announced must have arrived all the same; queue empty when nothing is lacking; an always-failing block is requested <= MAX_RETRIES_PER_BLOCK + 2 times per peer in 1800 rounds, whether or not the peer announces it again at generated rounds (before and after the retries are used up) and a second peer announces it too. evaluations = operations executed. non-trivial = >= 2 requests and a completion or failure; distinct by case digest".into();
    let uni3 = universe(4);
    let uni8 = universe(9);
    check_retry_bound(ctx, &uni3);
    // exhaustive small universe
    let depth = ctx.tier.pick(4usize, 5);
    let ops = all_ops(2, 3);
    let mut count = 0u64;
    for batch in [1u8, 2] {
        let mut idx = vec![0usize; depth];
        loop {
            let case = Case { peers: 2, universe: 3, batch, ops: idx.iter().map(|i| ops[*i]).collect(), stalled: 0 };
            count += 1;
            for (k, w) in eval(ctx, &case, &uni3, true) {
                ctx.violation(&k, w, json!({"check": "exhaustive", "case": case}));
            }
            // next
            let mut i = 0;
            loop {
                if i == depth {
                    break;
                }
                idx[i] += 1;
                if idx[i] < ops.len() {
                    break;
                }
                idx[i] = 0;
                i += 1;
            }
            if i == depth {
                break;
            }
        }
    }
    ctx.extra.insert("exhaustive_subspace".into(), json!({"depth": depth, "ops": ops.len(), "sequences": count, "universe": "2 peers x 3 blocks, batch 1 and 2"}));
    let strat = (1u8..4, 2u8..9, prop_oneof![Just(1u8), Just(2u8), Just(3u8), Just(10u8)], proptest::collection::vec(arb_op(), 4..60), prop_oneof![3 => Just(0u8), 1 => 1u8..4]).prop_map(|(peers, universe, batch, ops, stalled)| Case { peers, universe, batch, ops, stalled });
    let cases = ctx.tier.pick(600u32, 20_000);
    pbt_run(ctx, "random_sequences", cases, strat, |c, case, counting| eval(c, case, &uni8, counting));
}

pub fn replay(ctx: &mut Ctx, v: &serde_json::Value) -> bool {
    let rc_val = v.get("retry_case").cloned().or_else(|| if v.get("check").and_then(|c| c.as_str()) == Some("retry_bound") { v.get("case").cloned() } else { None });
    if let Some(rcv) = rc_val {
        let rc: RetryCase = match serde_json::from_value(rcv) {
            Ok(c) => c,
            Err(_) => return false,
        };
        let (viols, _) = run_retry_case(&rc, &universe(4));
        ctx.evals(1800);
        for (k, w) in viols {
            ctx.violation(&k, w, json!({"sub": "retry_bound", "retry_case": rc}));
        }
        return true;
    }
    let case: Case = match serde_json::from_value(v.get("case").cloned().unwrap_or(v.clone())) {
        Ok(c) => c,
        Err(_) => return false,
    };
    let uni = if case.universe <= 3 && v.get("check").and_then(|c| c.as_str()) == Some("exhaustive") { universe(4) } else { universe(9) };
    for (k, w) in eval(ctx, &case, &uni, true) {
        ctx.violation(&k, w, json!({"check": v.get("check").cloned().unwrap_or(json!("replay")), "case": case}));
    }
    true
}
