//! C03 — ledger state equals a replay of the longest chain (utxoset, by-height index, per-block
//! flags, tip) after every delivery, for every block tree and delivery order.

use proptest::prelude::*;
use saito_core::core::defs::*;
use serde::{Deserialize, Serialize};
use serde_json::json;

use crate::adversary::{BlockEdit, TxEdit, BLOCK_EDITS, TX_EDITS};
use crate::chain::*;
use crate::ctx::{block_on, digest, pbt_run, Ctx};
use crate::deliver::*;
use crate::observe::*;
use crate::world::*;

#[derive(Debug, Clone, Serialize, Deserialize, PartialEq, Eq, Hash)]
pub struct Case {
    pub hist: HistSpec,
    /// delivery order selectors over the non-genesis blocks
    pub order: Vec<u16>,
    /// (after how many deliveries, which earlier-delivered block) re-deliveries
    pub dups: Vec<(u16, u16)>,
}

#[derive(Debug, Default, Clone)]
pub struct CaseInfo {
    pub reorgs: usize,
    pub orphans: usize,
    pub rejected: usize,
    pub duplicates: usize,
    pub deliveries: usize,
    pub dead: Option<String>,
    pub blocks: usize,
}

/// Runs one case; returns violations (key, what) and info for classification.
pub fn run_case(case: &Case) -> (Vec<(String, String)>, CaseInfo) {
    let built = block_on(build_history(&case.hist));
    let mut info = CaseInfo::default();
    info.blocks = built.blocks.len();
    let table = BlockTable::from_blocks(&built.blocks);
    let max_id = built.blocks.iter().map(|b| b.id).max().unwrap_or(1) + 1;
    let bound = 4 * built.blocks.len() as u64 + 16;
    let mut d = Deliverer::new(Node::new(case.hist.ncfg, 5), bound);
    let mut viols: Vec<(String, String)> = vec![];
    let n = built.blocks.len() - 1;
    let perm = permutation(n, &case.order);
    let mut seq: Vec<usize> = vec![0];
    seq.extend(perm.iter().map(|i| i + 1));
    let mut delivered_so_far: Vec<usize> = vec![];
    let mut orphan_seen = false;
    // how the most hazardous parentless block so far sat relative to the tip when it arrived:
    // 0 = at or below the tip's height (or a branch whose fork point was purged), 1 = tip + 1,
    // 2 = further above the tip
    let mut orphan_rel: u8 = 9;
    let mut reject_seen = false;
    let mut step = 0usize;
    let mut schedule: Vec<(usize, bool)> = vec![];
    for (k, idx) in seq.iter().enumerate() {
        schedule.push((*idx, false));
        for (after, which) in &case.dups {
            if ((*after as usize * seq.len()) >> 16) == k && !delivered_so_far.is_empty() {
                let w = delivered_so_far[(*which as usize * delivered_so_far.len()) >> 16];
                schedule.push((w, true));
            }
        }
        delivered_so_far.push(*idx);
    }
    for (idx, is_dup) in schedule {
        if d.dead {
            break;
        }
        let b = &built.blocks[idx];
        let parent_known = idx == 0 || d.node.chain.blocks.contains_key(&b.previous_block_hash);
        if !parent_known {
            info.orphans += 1;
            if !case.hist.ncfg.loading_completed {
                orphan_seen = true;
                let tip_id = d.node.tip().0;
                orphan_rel = orphan_rel.min(if b.id <= tip_id { 0 } else if b.id == tip_id + 1 { 1 } else { 2 });
            }
        } else if idx != 0 && is_rootless(&d.node, &table, b) {
            // parent stored but the branch's fork point has been purged: same code path
            info.orphans += 1;
            orphan_seen = true;
            orphan_rel = 0;
        }
        if is_dup {
            info.duplicates += 1;
        }
        let before = block_on(snapshot(&d.node, max_id));
        let outs = d.deliver(b);
        if !d.dead && outs.iter().all(|o| !o.outcome.accepted()) && outs.iter().any(|o| o.outcome.name() != "exists") {
            // nothing was accepted: C04 says the state must be untouched; if it is not, that is
            // C04's finding and this history stops being explored here
            let after = block_on(snapshot(&d.node, max_id));
            if !snapshot_diff(&before, &after).is_empty() {
                // that the state moved at all is C04's subject; whether the state the node is left in
                // still describes one chain is this check's
                let found = check_consistency(&d.node, &table, max_id);
                // open finding F42 (second mechanism): purging runs while a multi-block candidate is
                // still being wound; when a later candidate block fails, the roll-back cannot bring
                // back what the earlier ones purged. Those are exactly the heights the candidate
                // would have purged had it succeeded: at most b.id - 1 - 2*gp.
                let purge_floor = b.id.saturating_sub(1 + 2 * case.hist.ncfg.gp);
                let only_premature_purge = !found.is_empty() && purge_floor > 0 && crate::observe::check_consistency_above(&d.node, &table, max_id, purge_floor).is_empty();
                for (suffix, what) in found {
                    let key = if orphan_seen && orphan_rel == 0 {
                        "C03|orphan_path".to_string()
                    } else if only_premature_purge {
                        "C03|purged_by_failed_reorganisation".to_string()
                    } else {
                        format!("C03|{}|ctx=after_rejected_delivery", suffix)
                    };
                    viols.push((key, format!("after the rejected delivery of block idx {} id {}: {}", idx, b.id, what)));
                }
                info.dead = Some("rejected_block_left_trace".into());
                d.dead = true;
            }
        }
        for o in &outs {
            info.deliveries += 1;
            step += 1;
            match &o.outcome {
                StepOutcome::Result("invalid") => {
                    info.rejected += 1;
                    reject_seen = true;
                }
                StepOutcome::Panicked(site, _) => info.dead = Some(format!("panic@{site}")),
                StepOutcome::Diverged(_) => info.dead = Some("diverged".into()),
                _ => {}
            }
            if o.tip_after.1 != o.tip_before.1 && o.tip_before.1 != [0; 32] {
                // reorganisation: new tip's parent is not the old tip
                if let Some(nb) = table.by_hash.get(&o.tip_after.1) {
                    if nb.previous_block_hash != o.tip_before.1 {
                        info.reorgs += 1;
                    }
                }
            }
        }
        if d.dead {
            break;
        }
        // finding F10 (the out-of-order branch of add_block) is keyed by what it needs: a parentless
        // block at or below the tip's height, or a branch whose fork point was purged. A block that
        // merely arrives early (above the tip, its parent following later) goes through the same
        // branch without harm on the pinned tree - such histories are judged like any other
        let ctxclass = if orphan_seen && orphan_rel == 0 {
            "orphan_seen"
        } else if orphan_seen {
            "early_block_seen"
        } else if reject_seen {
            "reject_seen"
        } else if info.reorgs > 0 {
            "reorg"
        } else {
            "plain"
        };
        for (suffix, what) in check_consistency(&d.node, &table, max_id) {
            let key = if ctxclass == "orphan_seen" {
                // one root cause (the out-of-order branch of add_block inserts and may adopt blocks
                // whose parent is unknown), many symptoms: keyed by cause
                "C03|orphan_path".to_string()
            } else {
                format!("C03|{}|ctx={}", suffix, ctxclass)
            };
            viols.push((
                key,
                format!("after delivery #{} (block idx {} id {}, outcome {}): {}", step, idx, b.id, outs.last().map(|o| o.outcome.name()).unwrap_or("?"), what),
            ));
        }
        if !viols.is_empty() {
            break;
        }
    }
    (viols, info)
}

fn classify(c: &mut Ctx, case: &Case, info: &CaseInfo) {
    c.eval();
    if info.reorgs >= 1 {
        c.nontrivial(&digest(case));
        c.class("with_reorg");
    }
    if info.reorgs >= 2 {
        c.class("with_2plus_reorgs");
    }
    if info.rejected > 0 {
        c.class("with_rejected_block");
    }
    if info.orphans > 0 {
        c.class("with_orphan");
    }
    if info.duplicates > 0 {
        c.class("with_duplicate");
    }
    if let Some(d) = &info.dead {
        c.class(&format!("aborted_attributed_to_C04:{}", d));
    }
}

fn sel_for(idx: usize, len: usize) -> u16 {
    // smallest sel with (sel*len)>>16 == idx
    (((idx as u64) << 16).div_ceil(len as u64)) as u16
}

/// Small-tree spec: `parents[i]` is the parent index (into built blocks) of non-genesis block i+1.
pub fn small_tree(ncfg: NodeCfg, parents: &[usize], gt_mask: u32, with_txs: bool) -> HistSpec {
    let mut blocks = vec![];
    for (i, p) in parents.iter().enumerate() {
        let len = i + 1; // number of built blocks before this one
        blocks.push(BlockSpec {
            parent: Some(sel_for(*p, len)),
            dt: 250 + 10 * i as u32,
            gt: (gt_mask >> i) & 1 == 1,
            creator: (i % 3) as u8,
            miner: 1,
            txs: if with_txs {
                vec![TxSpec {
                    payer: (i % 2) as u8,
                    payee: 2,
                    amount_sel: 20_000,
                    fee: 1_000 + i as u64,
                    routers: vec![],
                    with_path: false,
                    max_inputs: 1,
                    nft: false,
                }]
            } else {
                vec![]
            },
            bad_tx: None,
            corrupt: None, back: None,
        });
    }
    HistSpec {
        ncfg,
        treasury: 0,
        issuance: vec![(0, 5_000_000), (1, 7_000_000), (0, 3_000_000), (1, 900_000)],
        blocks,
        gt_policy: false,
    }
}

pub fn all_parent_vectors(n: usize) -> Vec<Vec<usize>> {
    let mut out: Vec<Vec<usize>> = vec![vec![]];
    for i in 0..n {
        let mut next = vec![];
        for v in &out {
            for p in 0..=i {
                let mut w = v.clone();
                w.push(p);
                next.push(w);
            }
        }
        out = next;
    }
    out
}

pub fn arb_adversarial_blockspec() -> impl Strategy<Value = BlockSpec> {
    (
        arb_blockspec(true),
        prop_oneof![
            12 => Just((None, None)),
            1 => (0usize..TX_EDITS.len(), 0u8..3, 0u8..3).prop_map(|(e, a, v)| (Some((TX_EDITS[e], a, v)), None)),
            1 => (0usize..BLOCK_EDITS.len()).prop_map(|e| (None, Some(BLOCK_EDITS[e]))),
            1 => (0usize..2).prop_map(|e| (None, Some(crate::adversary::ID_EDITS[e]))),
        ],
    )
        .prop_map(|(mut b, (bad, cor)): (BlockSpec, (Option<(TxEdit, u8, u8)>, Option<BlockEdit>))| {
            b.bad_tx = bad;
            b.corrupt = cor;
            b
        })
}

pub fn arb_case(max_blocks: usize) -> impl Strategy<Value = Case> {
    (
        arb_ncfg(),
        arb_issuance(),
        proptest::collection::vec(arb_adversarial_blockspec(), 2..max_blocks),
        proptest::collection::vec(any::<u16>(), 0..max_blocks),
        proptest::collection::vec((any::<u16>(), any::<u16>()), 0..3),
    )
        .prop_map(|(ncfg, issuance, blocks, order, dups)| Case {
            hist: HistSpec {
                ncfg,
                treasury: 0,
                issuance,
                blocks,
                gt_policy: true,
            },
            order,
            dups,
        })
}

fn eval_case(c: &mut Ctx, case: &Case, counting: bool) -> Vec<(String, String)> {
    let (v, info) = run_case(case);
    if counting {
        classify(c, case, &info);
        if info.reorgs > 0 && info.rejected > 0 {
            c.sample_class("reorg+reject", json!({"case": case, "info": format!("{:?}", info)}));
        } else if info.reorgs > 1 {
            c.sample_class("2reorgs", json!({"case": case, "info": format!("{:?}", info)}));
        }
    }
    v
}

pub fn run(ctx: &mut Ctx) {
    ctx.rule = "block trees built by honest producers following each branch (transactions spending the same outputs on sibling branches, optional invalid blocks by adversarial edit) delivered to a fresh node in every order (exhaustive for all parent vectors with <= N non-genesis blocks x golden-ticket masks x all permutations; random trees up to 16 blocks with generated order and duplicate deliveries beyond); after every delivery: by-height index == ancestor path of reported tip, per-block on-chain flag <=> on that path, tip id/hash/last_block agree, utxoset == independent replay of that path (entries younger than the 2*gp purge horizon). non-trivial = history contains >= 1 reorganisation; distinct by case digest".into();
    ctx.assumptions.push("Histories on which add_block panics or exceeds the wind/unwind step bound are attributed to C04 and stop being explored here (counted in classes).".into());

    // exhaustive small trees
    let n_max = ctx.tier.pick(4usize, 5);
    let mut exhaustive_cases = 0u64;
    for loading_completed in [true, false] {
        let ncfg = NodeCfg {
            gp: 100,
            heartbeat: 100,
            social_stake: 0,
            loading_completed,
            prune: 2,
        };
        for n in 2..=n_max {
            let perms = all_permutations(n);
            for parents in all_parent_vectors(n) {
                // golden ticket masks: none, all, alternating, single (full 2^n in thorough for n<=4)
                let masks: Vec<u32> = if ctx.tier == crate::ctx::Tier::Thorough && n <= 4 {
                    (0..(1u32 << n)).collect()
                } else {
                    vec![0, (1 << n) - 1, 0b10101 & ((1 << n) - 1), 0b01010 & ((1 << n) - 1)]
                };
                for m in masks {
                    let hist = small_tree(ncfg, &parents, m, true);
                    for p in &perms {
                        // selectors reproducing permutation p
                        let mut rest: Vec<usize> = (0..n).collect();
                        let mut order = vec![];
                        for x in p {
                            let k = rest.iter().position(|r| r == x).unwrap();
                            order.push(sel_for(k, rest.len()));
                            rest.remove(k);
                        }
                        let case = Case {
                            hist: hist.clone(),
                            order,
                            dups: vec![],
                        };
                        exhaustive_cases += 1;
                        let viols = eval_case(ctx, &case, true);
                        for (k, w) in viols {
                            ctx.violation(&k, w, json!({"check": "exhaustive_small_tree", "case": case}));
                        }
                    }
                }
            }
        }
    }
    ctx.extra.insert("exhaustive_subspace".into(), json!({"non_genesis_blocks_up_to": n_max, "cases": exhaustive_cases, "what": "all parent vectors x gt masks x all delivery permutations x loading_completed in {true,false}"}));

    // small trees with one invalid block: every parent vector x every non-first position x two
    // transaction edits whose damage is confined to the utxoset (an already spent / a non-existent
    // input), delivered in creation order: failed reorganisations with the offending block at every
    // depth of the candidate chain
    let mut invalid_cases = 0u64;
    {
        let ncfg = NodeCfg { gp: 100, heartbeat: 100, social_stake: 0, loading_completed: true, prune: 8 };
        let n = n_max.min(4);
        for parents in all_parent_vectors(n) {
            for pos in 1..n {
                for edit in [TxEdit::SpentInput, TxEdit::NonExistentInput] {
                    let mut hist = small_tree(ncfg, &parents, (1 << n) - 1, true);
                    hist.blocks[pos].bad_tx = Some((edit, 1, 0));
                    let case = Case { hist, order: vec![], dups: vec![] };
                    invalid_cases += 1;
                    for (k, w) in eval_case(ctx, &case, true) {
                        ctx.violation(&k, w, json!({"check": "small_tree_with_invalid_block", "case": case}));
                    }
                }
            }
        }
    }
    ctx.extra.insert("small_trees_with_one_invalid_block".into(), json!(invalid_cases));
    // chains that outgrow the purge horizon (2 x genesis period) with 1..3 extra blocks stored at one
    // early height: when that height is purged, tip, index and flags must keep describing the chain
    let mut purge_cases = 0u64;
    for gp in [4u64, 5] {
        for h in 1..=3usize {
            for extra in 1..=3usize {
                let ncfg = NodeCfg { gp, heartbeat: 100, social_stake: 0, loading_completed: true, prune: 8 };
                let mut blocks = vec![];
                let mk = |i: usize, parent: Option<u16>, dt: u32| BlockSpec { parent, dt, gt: i % 2 == 0, creator: (i % 3) as u8, miner: 1, txs: vec![], bad_tx: None, corrupt: None, back: None };
                for i in 0..h {
                    blocks.push(mk(i, None, 250));
                }
                // siblings of the block at height h+1 (children of built index h - 1 + 1)
                for e in 0..extra {
                    let len = 1 + h + e;
                    blocks.push(mk(50 + e, Some(sel_for(h, len)), 260 + 7 * e as u32));
                }
                // the chain continues from the block at height h+1 (built index h)... i.e. from the last main block
                let total = 2 * gp as usize + 4;
                for i in 0..total {
                    let len = 1 + h + extra + i;
                    let parent = if i == 0 { Some(sel_for(h, len)) } else { None };
                    blocks.push(mk(h + i, parent, 250));
                }
                let case = Case { hist: HistSpec { ncfg, treasury: 0, issuance: vec![(0, 5_000_000), (1, 7_000_000)], blocks, gt_policy: true }, order: vec![], dups: vec![] };
                purge_cases += 1;
                for (k, w) in eval_case(ctx, &case, true) {
                    ctx.violation(&k, w, json!({"check": "purge_of_a_height_with_siblings", "case": case}));
                }
            }
        }
    }
    ctx.extra.insert("purge_of_a_height_with_siblings_cases".into(), json!(purge_cases));

    // random trees
    let cases = ctx.tier.pick(300u32, 12_000);
    pbt_run(ctx, "random_trees", cases, arb_case(16), |c, case, counting| eval_case(c, case, counting));
}

pub fn replay(ctx: &mut Ctx, v: &serde_json::Value) -> bool {
    let case: Case = match serde_json::from_value(v.get("case").cloned().unwrap_or(v.clone())) {
        Ok(c) => c,
        Err(_) => return false,
    };
    for (k, w) in eval_case(ctx, &case, true) {
        ctx.violation(&k, w, json!({"check": "replay", "case": case}));
    }
    true
}

#[allow(dead_code)]
fn _unused(_: SaitoHash) {}
