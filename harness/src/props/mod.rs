pub mod c01;
pub mod c02;
pub mod c03;
pub mod c04;
pub mod c05;
pub mod c06;
pub mod c07;
pub mod c08;
pub mod c09;
pub mod c10;
pub mod c11;
pub mod c12;
pub mod c13;
pub mod c14;
pub mod c15;
pub mod c16;
pub mod c17;
pub mod c18;
pub mod c18_route;
pub mod c19;
pub mod c20;

use crate::ctx::Ctx;

pub fn level_of(id: &str) -> &'static str {
    match id {
        "C04" | "C12" => "fault_enumeration",
        _ => "exploration",
    }
}

/// Replays every committed regression file `replays/<ID>/regress_*.json` (shrunk failures of
/// defects that were repaired, or hand-minimised inputs) before the generated search starts.
pub fn run_regressions(id: &str, ctx: &mut Ctx) {
    let dir = format!("{}/replays/{}", crate::ctx::verif_dir(), id);
    let mut files: Vec<_> = match std::fs::read_dir(&dir) {
        Ok(d) => d.filter_map(|e| e.ok()).map(|e| e.path()).collect(),
        Err(_) => return,
    };
    files.sort();
    let mut n = 0;
    for f in files {
        let name = f.file_name().and_then(|n| n.to_str()).unwrap_or("").to_string();
        if !(name.starts_with("regress_") || name.starts_with("known_")) || !name.ends_with(".json") {
            continue;
        }
        if let Ok(s) = std::fs::read_to_string(&f) {
            if let Ok(v) = serde_json::from_str::<serde_json::Value>(&s) {
                let r = v.get("replay").cloned().unwrap_or(v.clone());
                if replay_value(id, ctx, &r) {
                    n += 1;
                }
            }
        }
    }
    ctx.extra.insert("regression_replays".into(), serde_json::json!(n));
}

pub fn run(id: &str, ctx: &mut Ctx) -> bool {
    run_regressions(id, ctx);
    match id {
        "C01" => c01::run(ctx),
        "C02" => c02::run(ctx),
        "C03" => c03::run(ctx),
        "C04" => c04::run(ctx),
        "C05" => c05::run(ctx),
        "C06" => c06::run(ctx),
        "C07" => c07::run(ctx),
        "C08" => c08::run(ctx),
        "C09" => c09::run(ctx),
        "C10" => c10::run(ctx),
        "C11" => c11::run(ctx),
        "C12" => c12::run(ctx),
        "C13" => c13::run(ctx),
        "C14" => c14::run(ctx),
        "C15" => c15::run(ctx),
        "C16" => c16::run(ctx),
        "C17" => c17::run(ctx),
        "C18" => c18::run(ctx),
        "C19" => c19::run(ctx),
        "C20" => c20::run(ctx),
        _ => return false,
    }
    true
}

/// Re-execute a saved replay file (strict: known findings are not tolerated, so a replay of a
/// known finding exits 1 as long as the defect exists).
pub fn replay(id: &str, ctx: &mut Ctx, file: &str) -> bool {
    let s = match std::fs::read_to_string(file) {
        Ok(s) => s,
        Err(e) => {
            eprintln!("cannot read {file}: {e}");
            return false;
        }
    };
    let v: serde_json::Value = match serde_json::from_str(&s) {
        Ok(v) => v,
        Err(e) => {
            eprintln!("cannot parse {file}: {e}");
            return false;
        }
    };
    let r = v.get("replay").cloned().unwrap_or(v.clone());
    let ok = replay_value(id, ctx, &r);
    // a replay is a single case; keep the evidence counters schema-valid anyway
    ctx.nontrivial(&"replay-a");
    ctx.nontrivial(&"replay-b");
    ok
}

pub fn replay_value(id: &str, ctx: &mut Ctx, r: &serde_json::Value) -> bool {
    match id {
        "C01" => c01::replay(ctx, r),
        "C02" => c02::replay(ctx, r),
        "C03" => c03::replay(ctx, r),
        "C04" => c04::replay(ctx, r),
        "C05" => c05::replay(ctx, r),
        "C06" => c06::replay(ctx, r),
        "C07" => c07::replay(ctx, r),
        "C08" => c08::replay(ctx, r),
        "C09" => c09::replay(ctx, r),
        "C10" => c10::replay(ctx, r),
        "C11" => c11::replay(ctx, r),
        "C12" => c12::replay(ctx, r),
        "C13" => c13::replay(ctx, r),
        "C14" => c14::replay(ctx, r),
        "C15" => c15::replay(ctx, r),
        "C16" => c16::replay(ctx, r),
        "C17" => c17::replay(ctx, r),
        "C18" => c18::replay(ctx, r),
        "C19" => c19::replay(ctx, r),
        "C20" => c20::replay(ctx, r),
        _ => {
            let _ = (ctx, r);
            false
        }
    }
}
