pub mod c09;

use crate::ctx::Ctx;

pub fn level_of(id: &str) -> &'static str {
    match id {
        "C04" | "C12" => "fault_enumeration",
        _ => "exploration",
    }
}

pub fn run(id: &str, ctx: &mut Ctx) -> bool {
    match id {
        "C09" => c09::run(ctx),
        _ => return false,
    }
    true
}

/// Re-execute a saved replay file (strict: known findings are not tolerated, so a replay of a
/// known finding exits 1 as long as the defect exists).
pub fn replay(id: &str, ctx: &mut Ctx, file: &str) -> bool {
    let s = match std::fs::read_to_string(file) {
        Ok(s) => s,
        Err(e) => {
            eprintln!("cannot read {file}: {e}");
            return false;
        }
    };
    let v: serde_json::Value = match serde_json::from_str(&s) {
        Ok(v) => v,
        Err(e) => {
            eprintln!("cannot parse {file}: {e}");
            return false;
        }
    };
    let r = v.get("replay").cloned().unwrap_or(v.clone());
    match id {
        _ => {
            let _ = (ctx, r);
            false
        }
    }
}
