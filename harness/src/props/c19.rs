//! C19 — wallet accounting matches the ledger. Stateful, model-based.

use std::collections::BTreeSet;

use proptest::prelude::*;
use saito_core::core::consensus::block::Block;
use saito_core::core::consensus::slip::SlipType;
use saito_core::core::consensus::transaction::Transaction;
use saito_core::core::defs::*;
use serde::{Deserialize, Serialize};
use serde_json::json;

use crate::ctx::{block_on, catch, digest, pbt_run, Ctx, Outcome};
use crate::deliver::*;
use crate::observe::BlockTable;
use crate::props::c01::density_needs_gt;
use crate::refmodel::*;
use crate::world::*;

#[derive(Debug, Clone, Serialize, Deserialize, PartialEq, Eq, Hash)]
pub enum Op {
    /// a block in which key `from` pays the wallet `amount_sel`/65536 of one of its outputs
    Receive { from: u8, amount_sel: u16 },
    /// the wallet builds a transaction (Transaction::create): payee, fraction of balance, fee
    /// `mode` 0: one payment of amount_sel/131072 of the balance. 1: one payment of
    /// u64::MAX - amount_sel. 2: two payments (Transaction::create_with_multiple_payments) of
    /// 2^63 and 2^63 + amount_sel%1000 (the u64 sum wraps). 3: two payments of 1/8 and 1/16 of the
    /// balance.
    Build {
        to: u8,
        amount_sel: u16,
        fee: u64,
        #[serde(default)]
        mode: u8,
    },
    /// a block including the built-but-not-included transactions selected by mask
    Include { mask: u8 },
    /// drop the oldest built transaction (never included)
    DropBuilt,
    /// `n` empty blocks
    Advance { n: u8 },
    /// side chain replacing the last `back`+1 blocks
    Reorg { back: u8 },
    /// the wallet builds a staking transaction (Wallet::create_staking_transaction, as the block
    /// producer does) over amount_sel/65536 of a twentieth of its balance; it waits for inclusion
    /// like any built transaction. Only in cases with a stake period.
    Stake { amount_sel: u16 },
}

#[derive(Debug, Clone, Serialize, Deserialize, PartialEq, Eq, Hash)]
pub struct Case {
    pub gp: u64,
    pub ops: Vec<Op>,
    /// 0: no staking operations. k > 0: staked outputs unlock after k blocks (the stake requirement
    /// of the chain stays 0, so that blocks of other producers need no staking transaction)
    #[serde(default)]
    pub stake_period: u8,
}

#[derive(Debug, Default)]
pub struct Info {
    pub steps: usize,
    pub built: usize,
    pub built_multi: usize,
    pub staking_built: usize,
    pub staking_mixed: usize,
    pub extreme_requests: usize,
    pub included: usize,
    pub received: usize,
    pub reorgs: usize,
    pub unwound_own_spend: usize,
    pub past_window: bool,
    pub exact_checks: usize,
}

fn wallet_view(n: &Node) -> (u64, BTreeSet<Vec<u8>>, u128, bool) {
    let w = block_on(n.wallet.read());
    let unspent: BTreeSet<Vec<u8>> = w.unspent_slips.iter().map(|k| k.to_vec()).collect();
    let sum: u128 = w.unspent_slips.iter().filter_map(|k| w.slips.get(k)).map(|s| s.amount as u128).sum();
    let subset = w.unspent_slips.iter().all(|k| w.slips.contains_key(k));
    (w.get_available_balance(), unspent, sum, subset)
}

pub fn run_case(case: &Case) -> (Vec<(String, String)>, Info) {
    let mut info = Info::default();
    let mut v: Vec<(String, String)> = vec![];
    let gp = case.gp;
    let ncfg = NodeCfg { gp, heartbeat: 100, social_stake: 0, loading_completed: true, prune: 8 };
    let mut node = Node::new(ncfg, 0);
    if case.stake_period > 0 {
        node.chain.social_stake_period = case.stake_period as u64;
    }
    let me = key(0);
    let issuance: Vec<(u8, u64)> = vec![(0, 90_000_000), (0, 80_000_000), (0, 7_000), (1, 500_000_000), (2, 600_000_000), (3, 300_000_000), (0, 1)];
    let g = block_on(node.genesis(&issuance, 0));
    let mut table = BlockTable::default();
    table.insert(&g);
    if !guarded_add(&mut node, g, 64).0.accepted() {
        return (v, info);
    }
    let creator = key(2);
    // transactions the wallet built that are not (yet) in a block on the chain
    let mut built: Vec<Transaction> = vec![];
    let mut reorg_happened = false;
    let mut salt = 0u64;

    // produce one block on the node's tip with the given transactions
    fn add_block(node: &mut Node, table: &mut BlockTable, creator: &KeyPair, txs: Vec<Transaction>, salt: u64) -> Option<StepOutcome> {
        let (_, tip_hash) = node.tip();
        let tb = node.chain.get_latest_block()?.clone();
        let ts = tb.timestamp + 210 + salt % 50;
        let gt = if density_needs_gt(node) || salt % 3 == 0 { block_on(node.mine_gt(tip_hash, &key(1), salt + 1)) } else { None };
        let mut txs = txs;
        for t in txs.iter_mut() {
            t.generate(&creator.0, 0, 0);
        }
        if txs.is_empty() && gt.is_none() {
            txs.push(carrier_tx(creator, ts));
        }
        let b = block_on(node.make_block_as(creator, tip_hash, ts, txs, gt)).ok()?;
        table.insert(&b);
        Some(guarded_add(node, b, 256).0)
    }

    for (step, op) in case.ops.iter().enumerate() {
        info.steps += 1;
        salt += 1;
        let (tip_id, tip_hash) = node.tip();
        let opname: &str;
        match op {
            Op::Receive { from, amount_sel } => {
                opname = "receive";
                let payer = key(1 + from % 3);
                let slips = node.spendable_of(&payer.0, tip_id + 2);
                if let Some(s) = slips.first().cloned() {
                    let amount = (((s.amount as u128) * (*amount_sel as u128 + 1)) >> 16) as u64;
                    let amount = amount.clamp(1, s.amount);
                    let mut outs = vec![(me.0, amount)];
                    if s.amount > amount {
                        outs.push((payer.0, s.amount - amount));
                    }
                    let tb = node.chain.get_latest_block().unwrap().timestamp;
                    let tx = tx_from_inputs(vec![s], outs, &payer, tb + salt, vec![]);
                    if let Some(r) = add_block(&mut node, &mut table, &creator, vec![tx], salt) {
                        if r.accepted() {
                            info.received += 1;
                        }
                    }
                }
            }
            Op::Build { to, amount_sel, fee, mode } => {
                opname = match mode % 4 {
                    0 => "build",
                    1 => "build_huge_amount",
                    2 => "build_two_payments_wrapping_sum",
                    _ => "build_two_payments",
                };
                let path = match table.path(&tip_hash) {
                    Some(p) => p,
                    None => break,
                };
                let (ledger, _) = RefLedger::replay(gp, &path);
                let (bal, _, _, _) = wallet_view(&node);
                let amount = (((bal as u128) * (*amount_sel as u128)) >> 17) as u64;
                let second = key(1 + (*to % 3)).0;
                if matches!(mode % 4, 1 | 2) {
                    info.extreme_requests += 1;
                }
                let out = catch(|| {
                    block_on(async {
                        let mut w = node.wallet.write().await;
                        match mode % 4 {
                            0 => Transaction::create(&mut w, key(*to).0, amount, *fee, false, None, tip_id, gp),
                            1 => Transaction::create(&mut w, key(*to).0, u64::MAX - *amount_sel as u64, *fee, false, None, tip_id, gp),
                            2 => Transaction::create_with_multiple_payments(&mut w, vec![key(*to).0, second], vec![1u64 << 63, (1u64 << 63) + (*amount_sel as u64 % 1000)], *fee, None, tip_id, gp),
                            _ => Transaction::create_with_multiple_payments(&mut w, vec![key(*to).0, second], vec![bal >> 3, bal >> 4], *fee, None, tip_id, gp),
                        }
                    })
                });
                match out {
                    Outcome::Panicked(site, msg) => {
                        v.push((format!("C19|build_panic|site={site}"), format!("step {step}: Transaction::create panicked at {site}: {msg}")));
                        break;
                    }
                    Outcome::Returned(Err(_)) => {}
                    Outcome::Returned(Ok(mut tx)) => {
                        tx.timestamp = 5_000 + salt;
                        tx.sign(&me.1);
                        tx.generate(&me.0, 0, 0);
                        info.built += 1;
                        if mode % 4 == 3 {
                            info.built_multi += 1;
                        }
                        // never the same output twice
                        let keys: Vec<UKey> = tx.from.iter().filter(|s| s.amount > 0).map(|s| ukey_of_slip(s)).collect();
                        let set: BTreeSet<&UKey> = keys.iter().collect();
                        if set.len() != keys.len() {
                            v.push(("C19|built_tx_repeats_input".into(), format!("step {step}: the wallet built a transaction listing an output twice")));
                        }
                        let tin: u128 = tx.from.iter().filter(|s| s.slip_type != SlipType::Bound).map(|s| s.amount as u128).sum();
                        let tout: u128 = tx.to.iter().filter(|s| s.slip_type != SlipType::Bound).map(|s| s.amount as u128).sum();
                        if tout > tin {
                            v.push(("C19|built_tx_overspends".into(), format!("step {step}: the wallet built a transaction with outputs {tout} > inputs {tin}")));
                        }
                        // valid against the ledger it was built on (ignoring inputs committed to earlier built txs)
                        let issues = ledger.judge_tx(&tx, tip_id + 1, 0, &BTreeSet::new());
                        if !issues.is_empty() {
                            let kinds: BTreeSet<&str> = issues.iter().map(|i| i.kind()).collect();
                            v.push((
                                format!("C19|built_tx_invalid|{}|reorg_before={}", kinds.into_iter().collect::<Vec<_>>().join("+"), reorg_happened),
                                format!("step {step}: the transaction the wallet built does not validate against the ledger it was built on: {:?}", issues),
                            ));
                        }
                        // must not reuse an input committed to an earlier, still pending, built transaction
                        let committed: BTreeSet<UKey> = built.iter().flat_map(|t| t.from.iter().filter(|s| s.amount > 0).map(|s| ukey_of_slip(s))).collect();
                        // (asserted only while no reorganisation has happened: the statement ties the
                        // "minus committed" clause to chains without reorganisation)
                        if !reorg_happened && keys.iter().any(|k| committed.contains(k)) {
                            let which: Vec<String> = tx.from.iter().filter(|s| committed.contains(&ukey_of_slip(s))).map(|s| format!("{}-{}-{} amount {} type {:?}", s.block_id, s.tx_ordinal, s.slip_index, s.amount, s.slip_type)).collect();
                            v.push(("C19|built_tx_reuses_committed_input".into(), format!("step {step}: the wallet spent an output it had already committed to a pending transaction: {:?} (tip {})", which, tip_id)));
                        }
                        built.push(tx);
                    }
                }
            }
            Op::Stake { amount_sel } => {
                opname = "stake";
                if case.stake_period == 0 {
                    continue;
                }
                let (bal, _, _, _) = wallet_view(&node);
                let amount = ((((bal / 20) as u128) * (*amount_sel as u128 + 1)) >> 16) as u64;
                let unlocked = node.chain.get_latest_unlocked_stake_block_id();
                let last_valid = (tip_id + 1).saturating_sub(gp);
                let out = catch(|| {
                    block_on(async {
                        let mut w = node.wallet.write().await;
                        w.create_staking_transaction(amount.max(1), unlocked, last_valid)
                    })
                });
                match out {
                    Outcome::Panicked(site, msg) => {
                        v.push((format!("C19|build_panic|site={site}|staking"), format!("step {step}: Wallet::create_staking_transaction panicked at {site}: {msg}")));
                        break;
                    }
                    Outcome::Returned(Err(_)) => {}
                    Outcome::Returned(Ok(mut tx)) => {
                        tx.generate(&me.0, 0, 0);
                        info.built += 1;
                        info.staking_built += 1;
                        if tx.from.iter().any(|s| s.slip_type == SlipType::BlockStake) && tx.from.iter().any(|s| s.slip_type != SlipType::BlockStake && s.amount > 0) {
                            info.staking_mixed += 1;
                        }
                        let keys: Vec<UKey> = tx.from.iter().filter(|s| s.amount > 0).map(|s| ukey_of_slip(s)).collect();
                        let set: BTreeSet<&UKey> = keys.iter().collect();
                        if set.len() != keys.len() {
                            v.push(("C19|built_tx_repeats_input|staking".into(), format!("step {step}: the wallet built a staking transaction listing an output twice")));
                        }
                        let tin: u128 = tx.from.iter().map(|s| s.amount as u128).sum();
                        let tout: u128 = tx.to.iter().map(|s| s.amount as u128).sum();
                        if tout > tin {
                            v.push(("C19|built_tx_overspends|staking".into(), format!("step {step}: the wallet built a staking transaction with outputs {tout} > inputs {tin}")));
                        }
                        built.push(tx);
                    }
                }
            }
            Op::Include { mask } => {
                opname = "include";
                let mut txs = vec![];
                let mut rest = vec![];
                for (i, t) in built.drain(..).enumerate() {
                    if (mask >> (i % 8)) & 1 == 1 {
                        txs.push(t);
                    } else {
                        rest.push(t);
                    }
                }
                built = rest;
                let n = txs.len();
                let kept = txs.clone();
                match add_block(&mut node, &mut table, &creator, txs, salt) {
                    Some(r) if r.accepted() => info.included += n,
                    Some(StepOutcome::Panicked(site, msg)) => {
                        v.push((format!("C19|panic|site={site}"), format!("step {step}: add_block panicked at {site}: {msg}")));
                        break;
                    }
                    _ => {
                        // block with the wallet's transactions refused: they stay built-but-pending
                        built.extend(kept);
                    }
                }
            }
            Op::DropBuilt => {
                opname = "drop_built";
                // the transaction is simply never included; its inputs stay committed
            }
            Op::Advance { n } => {
                opname = "advance";
                for j in 0..(*n % 6 + 1) {
                    add_block(&mut node, &mut table, &creator, vec![], salt * 10 + j as u64);
                }
            }
            Op::Reorg { back } => {
                opname = "reorg";
                let path: Vec<Block> = match table.path(&tip_hash) {
                    Some(p) => p.into_iter().cloned().collect(),
                    None => break,
                };
                let back = (*back as usize % 3 + 1).min(path.len() - 1);
                let mut builder = Node::new(ncfg, 5);
                for b in &path[..path.len() - back] {
                    let _ = guarded_add(&mut builder, b.clone(), 256);
                }
                if builder.tip().1 != path[path.len() - 1 - back].hash {
                    continue;
                }
                let mut side = vec![];
                let mut ok = true;
                for j in 0..=back {
                    match add_block(&mut builder, &mut table, &key(3), vec![], 700 + salt * 10 + j as u64) {
                        Some(r) if r.accepted() => side.push(table.by_hash.get(&builder.tip().1).unwrap().clone()),
                        _ => {
                            ok = false;
                            break;
                        }
                    }
                }
                if !ok {
                    continue;
                }
                let own_spends_unwound = path[path.len() - back..].iter().flat_map(|b| b.transactions.iter()).filter(|t| t.from.iter().any(|s| s.public_key == me.0 && s.amount > 0)).count();
                let before = node.tip().1;
                for b in side {
                    let (r, _) = guarded_add(&mut node, b, 256);
                    if let StepOutcome::Panicked(site, msg) = &r {
                        v.push((format!("C19|panic|site={site}"), format!("step {step}: add_block panicked at {site}: {msg}")));
                    }
                }
                if node.tip().1 != before {
                    info.reorgs += 1;
                    reorg_happened = true;
                    info.unwound_own_spend += own_spends_unwound;
                }
            }
        }
        if !v.is_empty() {
            break;
        }
        if std::env::var("VERIF_TRACE").is_ok() {
            let tipb = node.chain.get_latest_block().cloned();
            eprintln!(
                "step {step} {opname} {:?}: tip {:?} supply {:?} built {} | tip txs {:?}",
                op,
                node.tip().0,
                crate::refmodel::impl_supply_u128(&node.chain, gp),
                built.len(),
                tipb.map(|b| b.transactions.iter().map(|t| (crate::world::tx_type_name(t.transaction_type), t.from.iter().map(|s| (s.amount, s.slip_type as u8)).collect::<Vec<_>>(), t.to.iter().map(|s| (s.amount, s.slip_type as u8)).collect::<Vec<_>>())).collect::<Vec<_>>())
            );
        }
        // ---- invariants ----
        let (bal, unspent, sum, subset) = wallet_view(&node);
        if bal as u128 != sum {
            v.push((
                format!("C19|balance_ne_sum_of_unspent|after={opname}|reorg_before={reorg_happened}"),
                format!("step {step} ({opname}): available balance {bal} != sum of unspent slips {sum}"),
            ));
        }
        if !subset {
            v.push((format!("C19|unspent_not_subset_of_slips|after={opname}"), format!("step {step} ({opname}): an unspent slip is missing from the slip table")));
        }
        let (tip_id, tip_hash) = node.tip();
        if tip_id > gp + 1 {
            info.past_window = true;
        }
        if !reorg_happened {
            if let Some(path) = table.path(&tip_hash) {
                let (ledger, _) = RefLedger::replay(gp, &path);
                let committed: BTreeSet<UKey> = built.iter().flat_map(|t| t.from.iter().filter(|s| s.amount > 0).map(|s| ukey_of_slip(s))).collect();
                let expect: BTreeSet<Vec<u8>> = ledger
                    .utxo
                    .iter()
                    .filter(|(_, e)| e.owner == me.0 && e.amount > 0 && e.slip_type != 9 && e.slip_type != 8)
                    .filter(|(_, e)| ledger.in_window(e.block_id, tip_id))
                    .filter(|(k, _)| !committed.contains(*k))
                    .map(|(k, _)| k.clone())
                    .collect();
                info.exact_checks += 1;
                if expect != unspent {
                    let missing = expect.difference(&unspent).count();
                    let extra = unspent.difference(&expect).count();
                    v.push((
                        format!("C19|unspent_ne_ledger|missing={}|extra={}|after={opname}", missing.min(1), extra.min(1)),
                        format!("step {step} ({opname}): wallet lists {} unspent outputs, the ledger (minus {} committed) has {}: {} missing, {} extra (tip {}, gp {})", unspent.len(), committed.len(), expect.len(), missing, extra, tip_id, gp),
                    ));
                }
            }
        }
        if !v.is_empty() {
            break;
        }
    }
    (v, info)
}

fn eval(c: &mut Ctx, case: &Case, counting: bool) -> Vec<(String, String)> {
    let (v, info) = run_case(case);
    if counting {
        c.evals(info.steps.max(1) as u64);
        if info.built > 0 && info.included > 0 && info.received > 0 {
            c.nontrivial(&digest(case));
        }
        for (n, k) in [
            (info.built, "transactions_built_by_wallet"),
            (info.built_multi, "built_with_two_payments"),
            (info.staking_built, "staking_transactions_built"),
            (info.staking_mixed, "staking_transactions_topping_up_an_old_stake_with_liquid_funds"),
            (info.extreme_requests, "requests_with_amounts_near_2^63/2^64"),
            (info.included, "built_transactions_included"),
            (info.received, "incoming_payments"),
            (info.reorgs, "reorganisations"),
            (info.unwound_own_spend, "own_spends_unwound"),
            (info.exact_checks, "exact_ledger_comparisons"),
        ] {
            if n > 0 {
                *c.classes.entry(k.to_string()).or_insert(0) += n as u64;
            }
        }
        if info.past_window {
            c.class("history_past_window");
        }
        if info.unwound_own_spend > 0 {
            c.sample_class("unwound", json!({"case": case, "info": format!("{:?}", info)}));
        } else if info.past_window && info.included > 0 {
            c.sample_class("window", json!({"case": case, "info": format!("{:?}", info)}));
        }
    }
    v
}

pub fn arb_op() -> impl Strategy<Value = Op> {
    prop_oneof![
        3 => (0u8..3, any::<u16>()).prop_map(|(from, amount_sel)| Op::Receive { from, amount_sel }),
        4 => (1u8..4, any::<u16>(), prop_oneof![4 => Just(0u64), 4 => 1u64..100_000, 1 => (u64::MAX - 70_000)..=u64::MAX], prop_oneof![12 => Just(0u8), 1 => Just(1u8), 1 => Just(2u8), 2 => Just(3u8)]).prop_map(|(to, amount_sel, fee, mode)| Op::Build { to, amount_sel, fee, mode }),
        3 => any::<u8>().prop_map(|mask| Op::Include { mask }),
        1 => Just(Op::DropBuilt),
        2 => (0u8..6).prop_map(|n| Op::Advance { n }),
        1 => (0u8..3).prop_map(|back| Op::Reorg { back }),
        3 => any::<u16>().prop_map(|amount_sel| Op::Stake { amount_sel }),
    ]
}

pub fn arb_case(max_ops: usize) -> impl Strategy<Value = Case> {
    (prop_oneof![Just(6u64), Just(8u64), Just(12u64), Just(100u64)], proptest::collection::vec(arb_op(), 3..max_ops), prop_oneof![2 => Just(0u8), 1 => 1u8..4]).prop_map(|(gp, ops, stake_period)| Case { gp, ops, stake_period })
}

pub fn run(ctx: &mut Ctx) {
    ctx.rule = "operation sequences (3..30 ops) over a node and its wallet: incoming payments from three other keys, transactions of generated amount/fee built with Transaction::create (the wallet's own slip selection) and signed, blocks that include a generated subset of the built transactions, built transactions that are never included, runs of empty blocks (progress past the window; gp in {6,8,12,100}), side chains that unwind the last 1..3 blocks (incl. blocks with the wallet's own spends). after every operation: available balance == sum of the slips listed as unspent and unspent is a subset of slips; while no reorganisation has happened: unspent == the independent reference ledger's spendable in-window outputs of the wallet key minus the inputs committed to built-but-not-included transactions; every built transaction: no repeated input, outputs <= inputs (u128), valid per the reference ledger on the ledger it was built on, no reuse of committed inputs. evaluations = operations. non-trivial = sequence with an incoming payment, a built and an included transaction; distinct by case digest".into();
    let cases = ctx.tier.pick(700u32, 25_000);
    pbt_run(ctx, "wallet_ops", cases, arb_case(30), |c, case, counting| eval(c, case, counting));
}

pub fn replay(ctx: &mut Ctx, v: &serde_json::Value) -> bool {
    let case: Case = match serde_json::from_value(v.get("case").cloned().unwrap_or(v.clone())) {
        Ok(c) => c,
        Err(_) => return false,
    };
    for (k, w) in eval(ctx, &case, true) {
        ctx.violation(&k, w, json!({"check": "replay", "case": case}));
    }
    true
}
