//! C14 — the transaction pool stays consistent with the ledger; never loses or locks funds.
//! Stateful, model-based: generated operation sequences, invariants after every step.

use std::collections::{BTreeMap, BTreeSet};

use proptest::prelude::*;
use saito_core::core::consensus::slip::{Slip, SlipType};
use saito_core::core::consensus::transaction::{Transaction, TransactionType};
use saito_core::core::defs::*;
use serde::{Deserialize, Serialize};
use serde_json::json;

use crate::adversary::*;
use crate::ctx::{block_on, catch, digest, pbt_run, Ctx, Outcome};
use crate::deliver::*;
use crate::observe::BlockTable;
use crate::props::c01::density_needs_gt;
use crate::refmodel::*;
use crate::world::*;

#[derive(Debug, Clone, Serialize, Deserialize, PartialEq, Eq, Hash)]
pub enum Op {
    /// fresh honest transaction: payer, payee, fee, number of inputs wanted, with routing path to the node
    AddTx { payer: u8, payee: u8, fee: u64, inputs: u8, path: bool },
    /// a second transaction spending an input of pooled transaction #sel
    AddConflict { sel: u16 },
    /// resubmit pooled transaction #sel
    AddDuplicate { sel: u16 },
    AddInvalid { edit: u8 },
    /// a correctly signed transaction of arbitrary shape (adversary::shape_tx) from a key that owns
    /// nothing, optionally pointing at key 1's live output
    AddShaped { code: u64 },
    /// a staking (BlockStake-typed) transaction of another key arrives: it spends one output of
    /// `payer` into a BlockStake output and change, signed by the payer
    AddStakeTx { payer: u8 },
    /// the node's own producer, dt ms after the tip
    Bundle { dt: u32, gt: bool },
    /// a peer's block on the node's tip confirming a subset (mask) of the pooled transactions
    PeerConfirm { mask: u8, dt: u32 },
    /// a peer's block whose transaction spends ONE input of pooled transaction #sel
    PeerSpendsOneInput { sel: u16, dt: u32 },
    /// an invalid block is offered
    FailedBlock { edit: u8 },
    /// a peer's longer side chain from `back` blocks below the tip (un-confirms what was confirmed since)
    Reorg { back: u8 },
}

#[derive(Debug, Clone, Serialize, Deserialize, PartialEq, Eq, Hash)]
pub struct Case {
    pub gp: u64,
    pub ops: Vec<Op>,
}

#[derive(Debug, Default)]
pub struct Info {
    pub steps: usize,
    pub peer_touching_pooled: usize,
    pub bundles_ok: usize,
    pub bundles_none: usize,
    pub conflicts_refused: usize,
    pub stake_txs_submitted: usize,
    pub reorgs: usize,
    pub failed_blocks: usize,
    pub probes: usize,
    pub pool_max: usize,
}

fn value_inputs(t: &Transaction) -> Vec<SaitoUTXOSetKey> {
    t.from.iter().filter(|s| s.amount > 0).map(|s| s.get_utxoset_key()).collect()
}

fn pool_sorted(n: &Node) -> Vec<Transaction> {
    let mut v: Vec<Transaction> = n.mempool.transactions.values().cloned().collect();
    v.sort_by(|a, b| a.signature.cmp(&b.signature));
    v
}

struct World {
    node: Node,
    table: BlockTable,
    gp: u64,
    ts_salt: u64,
}

impl World {
    fn tip_block(&self) -> saito_core::core::consensus::block::Block {
        self.node.chain.get_latest_block().unwrap().clone()
    }

    fn invariants(&self, step: usize, op: &str) -> Vec<(String, String)> {
        let mut v = vec![];
        let pool = pool_sorted(&self.node);
        // I1: no two pooled transactions share a value input
        let mut seen: BTreeMap<SaitoUTXOSetKey, usize> = BTreeMap::new();
        for (i, t) in pool.iter().enumerate() {
            for k in value_inputs(t) {
                if let Some(j) = seen.insert(k, i) {
                    if j != i {
                        v.push((
                            format!("C14|two_pooled_txs_share_input|after={op}"),
                            format!("step {step} ({op}): pooled transactions #{j} and #{i} spend the same output"),
                        ));
                    }
                }
            }
        }
        // I2: every pooled transaction is valid against the ledger of the current longest chain
        let (tip_id, tip_hash) = self.node.tip();
        if let Some(path) = self.table.path(&tip_hash) {
            let (ledger, _) = RefLedger::replay(self.gp, &path);
            for (i, t) in pool.iter().enumerate() {
                if !matches!(t.transaction_type, TransactionType::Normal) {
                    continue;
                }
                let issues = ledger.judge_tx(t, tip_id + 1, 0, &BTreeSet::new());
                if !issues.is_empty() {
                    let kinds: BTreeSet<&str> = issues.iter().map(|x| x.kind()).collect();
                    v.push((
                        format!("C14|pooled_tx_invalid|{}|after={op}", kinds.into_iter().collect::<Vec<_>>().join("+")),
                        format!("step {step} ({op}): pooled transaction #{i} is not valid against the current ledger: {:?}", issues),
                    ));
                }
            }
        }
        // I4: an input reservation exists only for an input of a pooled transaction (a reservation
        // that outlives its transaction locks the output against every later spend)
        let pooled_keys: BTreeSet<SaitoUTXOSetKey> = pool.iter().flat_map(|t| t.from.iter().map(|s| s.utxoset_key)).collect();
        let stale = self.node.mempool.utxo_map.keys().filter(|k| !pooled_keys.contains(*k)).count();
        if stale > 0 {
            v.push((
                format!("C14|reservation_without_pooled_tx|after={op}"),
                format!("step {step} ({op}): {stale} input reservation(s) of the pool belong to no pooled transaction"),
            ));
        }
        // I3: cached routing work == sum over pooled transactions
        let sum: u64 = pool.iter().map(|t| t.total_work_for_me).sum();
        if self.node.mempool.get_routing_work_available() != sum {
            v.push((
                format!("C14|routing_work_cache|after={op}"),
                format!("step {step} ({op}): get_routing_work_available() = {} but pooled transactions carry {}", self.node.mempool.get_routing_work_available(), sum),
            ));
        }
        v
    }

    /// Terminal probe: every spendable output no pooled transaction spends can be spent by a new transaction.
    fn probe_unlocked(&mut self, info: &mut Info) -> Vec<(String, String)> {
        let mut v = vec![];
        let (tip_id, _) = self.node.tip();
        let pooled_inputs: BTreeSet<SaitoUTXOSetKey> = self.node.mempool.transactions.values().flat_map(|t| value_inputs(t)).collect();
        let ts = self.tip_block().timestamp + 7_000;
        for k in 0u8..4 {
            let owner = key(k);
            for s in self.node.spendable_of(&owner.0, tip_id + 3) {
                if pooled_inputs.contains(&s.utxoset_key) {
                    continue;
                }
                info.probes += 1;
                let amount = s.amount;
                let tx = tx_from_inputs(vec![s.clone()], vec![(owner.0, amount)], &owner, ts + info.probes as u64, vec![]);
                let sig = tx.signature;
                block_on(self.node.mempool.add_transaction_if_validates(tx, &self.node.chain));
                if !self.node.mempool.transactions.contains_key(&sig) {
                    v.push((
                        "C14|unspent_output_locked".into(),
                        format!("output {}-{}-{} (amount {}) is spendable, no pooled transaction spends it, yet a fresh valid spend of it is not admitted to the pool", s.block_id, s.tx_ordinal, s.slip_index, amount),
                    ));
                    return v;
                }
            }
        }
        v
    }
}

pub fn run_case(case: &Case) -> (Vec<(String, String)>, Info) {
    let mut info = Info::default();
    let mut v: Vec<(String, String)> = vec![];
    let ncfg = NodeCfg {
        gp: case.gp,
        heartbeat: 100,
        social_stake: 0,
        loading_completed: true,
        prune: 8,
    };
    let mut node = Node::new(ncfg, 0);
    let issuance: Vec<(u8, u64)> = vec![
        (0, 90_000_000), (0, 80_000_000), (0, 70_000_000), (1, 50_000_000), (1, 60_000_000), (1, 65_000_000),
        (2, 40_000_000), (2, 45_000_000), (3, 30_000_000), (3, 35_000_000), (2, 20_000_000), (3, 25_000_000),
    ];
    let g = block_on(node.genesis(&issuance, 0));
    let mut table = BlockTable::default();
    table.insert(&g);
    if !guarded_add(&mut node, g, 64).0.accepted() {
        return (v, info);
    }
    let mut w = World { node, table, gp: case.gp, ts_salt: 0 };
    let peer_creator = key(2);

    for (step, op) in case.ops.iter().enumerate() {
        info.steps += 1;
        w.ts_salt += 1;
        let (tip_id, tip_hash) = w.node.tip();
        let tipb = w.tip_block();
        let pool = pool_sorted(&w.node);
        info.pool_max = info.pool_max.max(pool.len());
        let pooled_inputs: BTreeSet<SaitoUTXOSetKey> = pool.iter().flat_map(|t| value_inputs(t)).collect();
        let opname: &str;
        match op {
            Op::AddTx { payer, payee, fee, inputs, path } => {
                opname = "add_tx";
                let mut reserved = pooled_inputs.clone();
                let plan = TxPlan { payer: *payer, payee: *payee, amount: 1_000 + w.ts_salt, fee: *fee, max_inputs: (*inputs).clamp(1, 3) as usize, ts: tipb.timestamp + w.ts_salt };
                // ask for more than one input's worth so that multi-input transactions exist
                let plan = if *inputs >= 2 { TxPlan { amount: 95_000_000, ..plan } } else { plan };
                if let Some(mut tx) = build_honest_tx(&w.node, &plan, tip_id + 3, &mut reserved) {
                    if *path && *payer != 0 {
                        add_path(&mut tx, &[*payer, 0]);
                    }
                    let sig = tx.signature;
                    block_on(w.node.mempool.add_transaction_if_validates(tx, &w.node.chain));
                    if !w.node.mempool.transactions.contains_key(&sig) {
                        v.push(("C14|fresh_valid_tx_refused".into(), format!("step {step}: a fresh valid transaction (no conflict with the pool) was not admitted")));
                    }
                }
            }
            Op::AddConflict { sel } => {
                opname = "add_conflict";
                if pool.is_empty() {
                    continue;
                }
                let t = &pool[(*sel as usize * pool.len()) >> 16];
                if let Some(s) = t.from.iter().find(|s| s.amount > 0) {
                    if let Some(owner) = (0u8..8).map(key).find(|k| k.0 == s.public_key) {
                        let tx = tx_from_inputs(vec![s.clone()], vec![(owner.0, s.amount)], &owner, tipb.timestamp + 900 + w.ts_salt, vec![]);
                        let sig = tx.signature;
                        block_on(w.node.mempool.add_transaction_if_validates(tx, &w.node.chain));
                        if !w.node.mempool.transactions.contains_key(&sig) {
                            info.conflicts_refused += 1;
                        }
                    }
                }
            }
            Op::AddDuplicate { sel } => {
                opname = "add_duplicate";
                if pool.is_empty() {
                    continue;
                }
                let t = pool[(*sel as usize * pool.len()) >> 16].clone();
                let n_before = w.node.mempool.transactions.len();
                block_on(w.node.mempool.add_transaction_if_validates(t, &w.node.chain));
                if w.node.mempool.transactions.len() != n_before {
                    v.push(("C14|duplicate_changes_pool".into(), format!("step {step}: resubmitting a pooled transaction changed the pool size")));
                }
            }
            Op::AddInvalid { edit } => {
                opname = "add_invalid";
                let (spent, expired) = crate::chain::spent_and_expired(&w.node, tip_id + 1);
                let ectx = EditCtx { node: &w.node, attacker: 3, victim: 1, for_block_id: tip_id + 1, ts: tipb.timestamp + w.ts_salt, spent: &spent, expired: &expired, offchain: &[] };
                let e = TX_EDITS[*edit as usize % TX_EDITS.len()];
                if let Some(tx) = edited_tx(e, &ectx) {
                    let sig = tx.signature;
                    let _ = catch(|| block_on(w.node.mempool.add_transaction_if_validates(tx, &w.node.chain)));
                    if w.node.mempool.transactions.contains_key(&sig) && e != TxEdit::NoSig {
                        // attributed to C01's catalogue; here only the invariants below matter
                    }
                }
            }
            Op::AddStakeTx { payer } => {
                opname = "add_stake_tx";
                let pk = key(1 + payer % 3);
                let taken: BTreeSet<Vec<u8>> = pool.iter().flat_map(|t| t.from.iter().map(|s| s.get_utxoset_key().to_vec())).collect();
                if let Some(sl) = w.node.spendable_of(&pk.0, tip_id + 2).into_iter().find(|s| !taken.contains(&s.get_utxoset_key().to_vec()) && s.amount >= 10) {
                    let mut t = tx_from_inputs(vec![sl.clone()], vec![(pk.0, sl.amount / 2)], &pk, tipb.timestamp + w.ts_salt, vec![]);
                    let mut o = Slip::default();
                    o.public_key = pk.0;
                    o.amount = sl.amount - sl.amount / 2;
                    o.slip_type = SlipType::BlockStake;
                    t.to.insert(0, o);
                    t.transaction_type = TransactionType::BlockStake;
                    t.sign(&pk.1);
                    t.generate(&key(0).0, 0, 0);
                    let _ = catch(|| block_on(w.node.mempool.add_transaction_if_validates(t, &w.node.chain)));
                    info.stake_txs_submitted += 1;
                }
            }
            Op::AddShaped { code } => {
                opname = "add_shaped";
                let real = w.node.spendable_of(&key(1).0, tip_id + 1).first().cloned();
                let tx = shape_tx(*code, &key(7), real.as_ref(), tipb.timestamp + w.ts_salt);
                let _ = catch(|| block_on(w.node.mempool.add_transaction_if_validates(tx, &w.node.chain)));
            }
            Op::Bundle { dt, gt } => {
                opname = "bundle";
                let ts = tipb.timestamp + (*dt).max(1) as u64;
                if *gt || density_needs_gt(&w.node) {
                    if let Some(g) = block_on(w.node.mine_gt(tip_hash, &key(1), step as u64 + 1)) {
                        block_on(w.node.mempool.add_golden_ticket(g));
                    }
                }
                let gt_result = w.node.mempool.golden_tickets.get(&tip_hash).map(|(t, _)| t.clone());
                let before: BTreeSet<Vec<u8>> = w.node.mempool.transactions.keys().map(|k| k.to_vec()).collect();
                let out = catch(|| block_on(w.node.mempool.bundle_block(&w.node.chain, ts, gt_result, &w.node.cfg, &w.node.storage)));
                match out {
                    Outcome::Panicked(site, msg) => {
                        v.push((format!("C14|bundle_panic|site={site}"), format!("step {step}: bundle_block panicked at {site}: {msg}")));
                        break;
                    }
                    Outcome::Returned(None) => {
                        info.bundles_none += 1;
                        let after: BTreeSet<Vec<u8>> = w.node.mempool.transactions.keys().map(|k| k.to_vec()).collect();
                        if before != after {
                            v.push((
                                "C14|failed_bundle_changes_pool".into(),
                                format!("step {step}: bundle_block returned no block but the pool went from {} to {} transactions", before.len(), after.len()),
                            ));
                        }
                    }
                    Outcome::Returned(Some(b)) => {
                        info.bundles_ok += 1;
                        // between bundling and adding the block (which may yet fail or lose against a
                        // competing block) the pool must already be consistent
                        let between = w.invariants(step, "bundle_before_add");
                        if !between.is_empty() {
                            v.extend(between);
                            break;
                        }
                        let bundled: BTreeSet<Vec<u8>> = b.transactions.iter().filter(|t| t.transaction_type == TransactionType::Normal).map(|t| t.signature.to_vec()).collect();
                        w.table.insert(&b);
                        let (r, _) = guarded_add(&mut w.node, b, 256);
                        if !matches!(r, StepOutcome::Result("added_lc")) {
                            v.push((format!("C14|bundled_block_not_accepted|{}", r.name()), format!("step {step}: the block bundled from the pool was not accepted: {}", r.name())));
                            break;
                        }
                        let after: BTreeSet<Vec<u8>> = w.node.mempool.transactions.keys().map(|k| k.to_vec()).collect();
                        let expected: BTreeSet<Vec<u8>> = before.difference(&bundled).cloned().collect();
                        // transactions that the new block invalidated may legitimately go too; nothing else
                        if !after.is_subset(&expected) {
                            v.push(("C14|bundle_resurrects_txs".into(), format!("step {step}: after bundling the pool holds transactions it did not hold before")));
                        }
                        if before.intersection(&bundled).count() != bundled.len() {
                            v.push(("C14|bundle_invents_txs".into(), format!("step {step}: the bundled block contains user transactions that were not pooled")));
                        }
                    }
                }
            }
            Op::PeerConfirm { mask, dt } => {
                opname = "peer_confirm";
                let mut txs: Vec<Transaction> = pool.iter().enumerate().filter(|(i, _)| (mask >> (i % 8)) & 1 == 1).map(|(_, t)| t.clone()).collect();
                if !txs.is_empty() {
                    info.peer_touching_pooled += 1;
                }
                let ts = tipb.timestamp + (*dt).max(200) as u64;
                if txs.is_empty() {
                    txs.push(carrier_tx(&peer_creator, ts));
                }
                for t in txs.iter_mut() {
                    t.generate(&peer_creator.0, 0, 0);
                }
                let gt = if density_needs_gt(&w.node) { block_on(w.node.mine_gt(tip_hash, &key(1), 500 + step as u64)) } else { None };
                if let Ok(b) = block_on(w.node.make_block_as(&peer_creator, tip_hash, ts, txs, gt)) {
                    w.table.insert(&b);
                    let (r, _) = guarded_add(&mut w.node, b, 256);
                    if let StepOutcome::Panicked(site, msg) = &r {
                        v.push((format!("C14|panic|site={site}"), format!("step {step}: add_block panicked at {site}: {msg}")));
                        break;
                    }
                }
            }
            Op::PeerSpendsOneInput { sel, dt } => {
                opname = "peer_spends_one_input";
                let multi: Vec<&Transaction> = pool.iter().filter(|t| value_inputs(t).len() >= 2).collect();
                let cands: Vec<&Transaction> = if multi.is_empty() { pool.iter().collect() } else { multi };
                if cands.is_empty() {
                    continue;
                }
                let t = cands[(*sel as usize * cands.len()) >> 16];
                let s: Slip = match t.from.iter().find(|s| s.amount > 0 && s.slip_type != SlipType::Bound).cloned() {
                    Some(s) => s,
                    None => continue, // a pooled transaction without a value-carrying input (shaped)
                };
                let owner = match (0u8..8).map(key).find(|k| k.0 == s.public_key) {
                    Some(o) => o,
                    None => continue,
                };
                let ts = tipb.timestamp + (*dt).max(200) as u64;
                let mut tx = tx_from_inputs(vec![s.clone()], vec![(key(3).0, s.amount)], &owner, ts + 1, vec![]);
                tx.generate(&peer_creator.0, 0, 0);
                let gt = if density_needs_gt(&w.node) { block_on(w.node.mine_gt(tip_hash, &key(1), 700 + step as u64)) } else { None };
                if let Ok(b) = block_on(w.node.make_block_as(&peer_creator, tip_hash, ts, vec![tx], gt)) {
                    info.peer_touching_pooled += 1;
                    w.table.insert(&b);
                    let (r, _) = guarded_add(&mut w.node, b, 256);
                    if let StepOutcome::Panicked(site, msg) = &r {
                        v.push((format!("C14|panic|site={site}"), format!("step {step}: add_block panicked at {site}: {msg}")));
                        break;
                    }
                }
            }
            Op::FailedBlock { edit } => {
                opname = "failed_block";
                let ts = tipb.timestamp + 300;
                let before: BTreeSet<Vec<u8>> = w.node.mempool.transactions.keys().map(|k| k.to_vec()).collect();
                if let Ok(mut b) = block_on(w.node.make_block_as(&peer_creator, tip_hash, ts, vec![carrier_tx(&peer_creator, ts)], None)) {
                    let e = BLOCK_EDITS[*edit as usize % 7]; // header lies
                    if apply_block_edit(&mut b, e, &peer_creator, tipb.difficulty) {
                        info.failed_blocks += 1;
                        let (r, _) = guarded_add(&mut w.node, b, 256);
                        if r.accepted() {
                            continue; // C04's matter
                        }
                        let after: BTreeSet<Vec<u8>> = w.node.mempool.transactions.keys().map(|k| k.to_vec()).collect();
                        if before != after {
                            v.push(("C14|failed_block_changes_pool".into(), format!("step {step}: a rejected block changed the pool ({} -> {} transactions)", before.len(), after.len())));
                        }
                    }
                }
            }
            Op::Reorg { back } => {
                opname = "reorg";
                // side chain from `back` blocks below the tip, one block longer than the main segment
                let path = match w.table.path(&tip_hash) {
                    Some(p) => p.into_iter().cloned().collect::<Vec<_>>(),
                    None => continue,
                };
                let back = (*back as usize % 3 + 1).min(path.len() - 1);
                let fork = path[path.len() - 1 - back].clone();
                let mut builder = Node::new(ncfg, 5);
                for b in &path[..path.len() - back] {
                    let _ = guarded_add(&mut builder, b.clone(), 256);
                }
                if builder.tip().1 != fork.hash {
                    continue;
                }
                let mut side = vec![];
                let mut ok = true;
                for j in 0..=back {
                    let (_, th) = builder.tip();
                    let tb = builder.chain.get_latest_block().unwrap().clone();
                    let ts = tb.timestamp + 201 + j as u64;
                    let gt = if density_needs_gt(&builder) || j % 2 == 0 { block_on(builder.mine_gt(th, &key(1), 900 + j as u64)) } else { None };
                    let txs = if gt.is_none() { vec![carrier_tx(&key(3), ts)] } else { vec![] };
                    match block_on(builder.make_block_as(&key(3), th, ts, txs, gt)) {
                        Ok(b) => {
                            if !guarded_add(&mut builder, b.clone(), 256).0.accepted() {
                                ok = false;
                                break;
                            }
                            side.push(b);
                        }
                        Err(_) => {
                            ok = false;
                            break;
                        }
                    }
                }
                if !ok {
                    continue;
                }
                let tip_before = w.node.tip().1;
                for b in side {
                    w.table.insert(&b);
                    let (r, _) = guarded_add(&mut w.node, b, 256);
                    if let StepOutcome::Panicked(site, msg) = &r {
                        v.push((format!("C14|panic|site={site}"), format!("step {step}: add_block panicked at {site}: {msg}")));
                    }
                }
                if w.node.tip().1 != tip_before {
                    info.reorgs += 1;
                }
            }
        }
        if !v.is_empty() {
            break;
        }
        v.extend(w.invariants(step, opname));
        if !v.is_empty() {
            break;
        }
    }
    if v.is_empty() {
        v.extend(w.probe_unlocked(&mut info));
    }
    (v, info)
}

fn eval(c: &mut Ctx, case: &Case, counting: bool) -> Vec<(String, String)> {
    let (v, info) = run_case(case);
    if counting {
        c.evals(info.steps.max(1) as u64);
        if info.peer_touching_pooled > 0 {
            c.nontrivial(&digest(case));
            c.class("peer_block_touches_pooled_tx");
        }
        for (n, k) in [
            (info.bundles_ok, "bundles_producing_a_block"),
            (info.bundles_none, "bundles_without_block"),
            (info.conflicts_refused, "conflicting_tx_refused"),
            (info.reorgs, "reorganisations"),
            (info.failed_blocks, "failed_block_additions"),
            (info.probes, "terminal_spend_probes"),
        ] {
            if n > 0 {
                *c.classes.entry(k.to_string()).or_insert(0) += n as u64;
            }
        }
        if info.peer_touching_pooled > 0 && info.reorgs > 0 {
            c.sample_class("reorg", json!({"case": case, "info": format!("{:?}", info)}));
        } else if info.peer_touching_pooled > 1 {
            c.sample_class("peer", json!({"case": case, "info": format!("{:?}", info)}));
        }
    }
    v
}

pub fn arb_op() -> impl Strategy<Value = Op> {
    prop_oneof![
        6 => (0u8..4, 0u8..4, prop_oneof![Just(0u64), 1u64..50_000], 1u8..4, any::<bool>()).prop_map(|(payer, payee, fee, inputs, path)| Op::AddTx { payer, payee, fee, inputs, path }),
        2 => any::<u16>().prop_map(|sel| Op::AddConflict { sel }),
        1 => any::<u16>().prop_map(|sel| Op::AddDuplicate { sel }),
        1 => any::<u8>().prop_map(|edit| Op::AddInvalid { edit }),
        1 => any::<u64>().prop_map(|code| Op::AddShaped { code }),
        1 => (0u8..3).prop_map(|payer| Op::AddStakeTx { payer }),
        3 => (prop_oneof![Just(6000u32), 200u32..6000], any::<bool>()).prop_map(|(dt, gt)| Op::Bundle { dt, gt }),
        2 => (any::<u8>(), 200u32..800).prop_map(|(mask, dt)| Op::PeerConfirm { mask, dt }),
        3 => (any::<u16>(), 200u32..800).prop_map(|(sel, dt)| Op::PeerSpendsOneInput { sel, dt }),
        1 => any::<u8>().prop_map(|edit| Op::FailedBlock { edit }),
        1 => (0u8..3).prop_map(|back| Op::Reorg { back }),
    ]
}

pub fn arb_case(max_ops: usize) -> impl Strategy<Value = Case> {
    (prop_oneof![Just(100u64), Just(12u64), Just(6u64)], proptest::collection::vec(arb_op(), 3..max_ops)).prop_map(|(gp, ops)| Case { gp, ops })
}

pub fn run(ctx: &mut Ctx) {
    ctx.rule = "operation sequences (3..30 ops) over one node: add fresh / conflicting / duplicate / invalid transactions through the pool's public entry, bundle locally with the node's own producer, peer blocks that confirm a subset of the pooled transactions, peer blocks that spend ONE input of a (multi-input) pooled transaction, failed block additions, peer side chains that reorganise away recent blocks; after every operation: no two pooled transactions share a value input; every pooled transaction is valid on the current ledger per the independent reference ledger; get_routing_work_available equals the sum over pooled transactions; every input reservation belongs to a pooled transaction (also between bundle_block and the addition of the bundled block); a bundle yields an accepted block and removes its transactions or leaves the pool unchanged; a rejected block leaves the pool unchanged. terminal probe: every spendable output that no pooled transaction spends is spent by a fresh signed transaction, which must be admitted. evaluations = operations executed. non-trivial = sequence contains a peer block touching a pooled transaction; distinct by case digest".into();
    let cases = ctx.tier.pick(600u32, 20_000);
    pbt_run(ctx, "pool_ops", cases, arb_case(30), |c, case, counting| eval(c, case, counting));
}

pub fn replay(ctx: &mut Ctx, v: &serde_json::Value) -> bool {
    let case: Case = match serde_json::from_value(v.get("case").cloned().unwrap_or(v.clone())) {
        Ok(c) => c,
        Err(_) => return false,
    };
    for (k, w) in eval(ctx, &case, true) {
        ctx.violation(&k, w, json!({"check": "replay", "case": case}));
    }
    true
}
