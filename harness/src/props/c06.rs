//! C06 — a block's identity binds its content and its creator.

use proptest::prelude::*;
use saito_core::core::consensus::block::{Block, BlockType};
use saito_core::core::defs::*;
use saito_core::core::util::crypto::verify_signature;
use serde::{Deserialize, Serialize};
use serde_json::json;

use crate::chain::*;
use crate::ctx::{block_on, digest, pbt_run, Ctx};
use crate::deliver::*;
use crate::props::c09::tx_eq;
use crate::world::*;

#[derive(Debug, Clone, Serialize, Deserialize, PartialEq, Eq, Hash)]
pub enum IdEdit {
    RemoveTx(u16),
    DupTx(u16),
    SwapTx(u16, u16),
    AddTx,
    ReplaceTx(u16),
    MutateTxAmount(u16),
    MutateTxData(u16),
    MutateTxTimestamp(u16),
    /// signed header field (index into the signed list) changed, signature kept
    HeaderSigned(u8),
    /// header field outside the signature changed (validated only against consensus values)
    HeaderUnsigned(u8),
    /// transaction list edited and the header's merkle root set to the new list's root, signature kept
    MerkleOfEdited(u16),
    ZeroMerkle,
    FlipSig(u8),
    CreatorNoResign,
    CreatorResign,
    /// a slip-less transaction of the given type code with the given txs_replacements count
    /// (0 = a placeholder that claims to stand for nothing) inserted at a position
    InsertTyped(u16, u8, u8),
    /// txs_replacements of an existing transaction changed
    MutateTxReplacements(u16, u8),
    /// an input of a transaction re-pointed to another spendable output of the same owner with the
    /// same amount, slip index and type (created by a different transaction)
    RepointInput(u16),
    /// the last routing hop of a transaction dropped (hops are signed one by one, the path as a
    /// whole is not covered by the transaction hash)
    DropLastHop(u16),
    /// every transaction removed, or only the first k kept (header untouched: the header-only form
    /// of the block, and truncations of its transaction list)
    Truncate(u16),
    /// a signature replaced by its twin (r, n - s), which anyone can compute without a key: of a
    /// transaction (which = even) or of the last routing hop of a transaction with a path (odd).
    /// Transaction and hop signatures are outside the transaction hash, so only the rule that a
    /// valid signature has one encoding keeps the signed block from admitting a second transaction set
    SigTwin(u16, u8),
    /// one bit flipped in the signature field of a transaction that the block producer makes (fee,
    /// rebroadcast, issuance): nothing verifies that field
    ProducerTxSig(u16, u8),
    /// the stated creator signs the header with an all-zero transaction commitment (a creator who
    /// leaves the field for the receiver to fill in); with a non-zero selector two transactions are
    /// swapped afterwards. A header that commits to nothing must never make an acceptable block
    ZeroRootSigned(u16),
    /// control: no edit at all (must be accepted)
    Identity,
}

#[derive(Debug, Clone, Serialize, Deserialize, PartialEq, Eq, Hash)]
pub struct Case {
    pub hist: HistSpec,
    pub edits: Vec<IdEdit>,
}

fn pick(sel: u16, n: usize) -> usize {
    (sel as usize * n) >> 16
}

const SIGNED_FIELDS: usize = 14;
fn bump_signed(b: &mut Block, f: u8) {
    match f as usize % SIGNED_FIELDS {
        0 => b.id += 1,
        1 => b.timestamp += 1,
        2 => b.previous_block_hash[5] ^= 1,
        3 => b.graveyard = b.graveyard.wrapping_add(1),
        4 => b.treasury = b.treasury.wrapping_add(1),
        5 => b.burnfee = b.burnfee.wrapping_add(1),
        6 => b.difficulty = b.difficulty.wrapping_add(1),
        7 => b.avg_fee_per_byte = b.avg_fee_per_byte.wrapping_add(1),
        8 => b.avg_nolan_rebroadcast_per_block = b.avg_nolan_rebroadcast_per_block.wrapping_add(1),
        9 => b.previous_block_unpaid = b.previous_block_unpaid.wrapping_add(1),
        10 => b.avg_total_fees = b.avg_total_fees.wrapping_add(1),
        11 => b.avg_total_fees_new = b.avg_total_fees_new.wrapping_add(1),
        12 => b.avg_total_fees_atr = b.avg_total_fees_atr.wrapping_add(1),
        _ => b.avg_payout_routing = b.avg_payout_routing.wrapping_add(1),
    }
}
const UNSIGNED_FIELDS: usize = 13;
fn bump_unsigned(b: &mut Block, f: u8) {
    match f as usize % UNSIGNED_FIELDS {
        0 => b.avg_payout_mining = b.avg_payout_mining.wrapping_add(1), // signed in fact; kept for coverage
        1 => b.avg_payout_treasury = b.avg_payout_treasury.wrapping_add(1),
        2 => b.avg_payout_graveyard = b.avg_payout_graveyard.wrapping_add(1),
        3 => b.avg_payout_atr = b.avg_payout_atr.wrapping_add(1),
        4 => b.total_payout_routing = b.total_payout_routing.wrapping_add(1),
        5 => b.total_payout_mining = b.total_payout_mining.wrapping_add(1),
        6 => b.total_payout_treasury = b.total_payout_treasury.wrapping_add(1),
        7 => b.total_payout_graveyard = b.total_payout_graveyard.wrapping_add(1),
        8 => b.total_payout_atr = b.total_payout_atr.wrapping_add(1),
        9 => b.total_fees = b.total_fees.wrapping_add(1),
        10 => b.total_fees_new = b.total_fees_new.wrapping_add(1),
        11 => b.total_fees_atr = b.total_fees_atr.wrapping_add(1),
        _ => b.fee_per_byte = b.fee_per_byte.wrapping_add(1),
    }
}

fn edit_tx_list(b: &mut Block, sel: u16) {
    let n = b.transactions.len();
    if n == 0 {
        b.transactions.push(carrier_tx(&key(3), b.timestamp + 1));
        return;
    }
    match sel % 3 {
        0 => {
            b.transactions.remove(pick(sel, n));
        }
        1 => {
            let t = b.transactions[pick(sel, n)].clone();
            b.transactions.push(t);
        }
        _ => b.transactions.push(carrier_tx(&key(3), b.timestamp + 1)),
    }
}

/// (r, s) -> (r, n - s) for the group order n of secp256k1 (compact 64-byte signature).
fn sig_twin(sig: &[u8; 64]) -> [u8; 64] {
    const N: [u8; 32] = [
        0xff, 0xff, 0xff, 0xff, 0xff, 0xff, 0xff, 0xff, 0xff, 0xff, 0xff, 0xff, 0xff, 0xff, 0xff, 0xfe, 0xba, 0xae, 0xdc, 0xe6, 0xaf, 0x48, 0xa0, 0x3b, 0xbf, 0xd2, 0x5e, 0x8c, 0xd0, 0x36,
        0x41, 0x41,
    ];
    let mut out = *sig;
    let mut borrow = 0i16;
    for i in (0..32).rev() {
        let d = N[i] as i16 - sig[32 + i] as i16 - borrow;
        if d < 0 {
            out[32 + i] = (d + 256) as u8;
            borrow = 1;
        } else {
            out[32 + i] = d as u8;
            borrow = 0;
        }
    }
    out
}

/// Applies the edit. Returns (edited block, resigned_by_new_creator, asserts_rejection).
fn apply(orig: &Block, e: &IdEdit) -> Option<(Block, bool, bool)> {
    let mut b = Block::deserialize_from_net(&orig.serialize_for_net(BlockType::Full)).ok()?;
    let n = b.transactions.len();
    let mut resigned = false;
    let mut asserted = true;
    match e {
        IdEdit::RemoveTx(s) => {
            if n == 0 {
                return None;
            }
            b.transactions.remove(pick(*s, n));
        }
        IdEdit::Truncate(k) => {
            if n == 0 {
                return None;
            }
            // k = 0 (every third case): nothing kept
            let keep = if *k % 3 == 0 { 0 } else { pick(*k, n) };
            b.transactions.truncate(keep);
        }
        IdEdit::DupTx(s) => {
            if n == 0 {
                return None;
            }
            let i = pick(*s, n);
            let t = b.transactions[i].clone();
            b.transactions.insert(i, t);
        }
        IdEdit::SwapTx(a, c) => {
            if n < 2 {
                return None;
            }
            let (i, j) = (pick(*a, n), pick(*c, n));
            if i == j {
                return None;
            }
            b.transactions.swap(i, j);
        }
        IdEdit::AddTx => b.transactions.push(carrier_tx(&key(3), b.timestamp + 1)),
        IdEdit::ReplaceTx(s) => {
            if n == 0 {
                return None;
            }
            b.transactions[pick(*s, n)] = carrier_tx(&key(3), b.timestamp + 2);
        }
        IdEdit::MutateTxAmount(s) => {
            if n == 0 {
                return None;
            }
            let t = &mut b.transactions[pick(*s, n)];
            if t.to.is_empty() {
                return None;
            }
            t.to[0].amount = t.to[0].amount.wrapping_add(1);
        }
        IdEdit::MutateTxData(s) => {
            if n == 0 {
                return None;
            }
            let t = &mut b.transactions[pick(*s, n)];
            if t.transaction_type == saito_core::core::consensus::transaction::TransactionType::GoldenTicket {
                t.data[40] ^= 1;
            } else {
                t.data.push(7);
            }
        }
        IdEdit::InsertTyped(s, ty, repl) => {
            use saito_core::core::consensus::transaction::{Transaction, TransactionType};
            let mut t = Transaction::default();
            t.transaction_type = match ty % 5 {
                0 | 1 => TransactionType::SPV,
                2 => TransactionType::Normal,
                3 => TransactionType::ATR,
                _ => TransactionType::Vip,
            };
            t.timestamp = b.timestamp + 3;
            t.txs_replacements = [0u32, 0, 1, 2, 7][*repl as usize % 5];
            t.data = vec![*repl, *ty, 9];
            t.sign(&key(3).1);
            b.transactions.insert(pick(*s, n + 1), t);
        }
        IdEdit::RepointInput(_) => return None, // needs the replica's ledger: applied by judge_edits
        IdEdit::DropLastHop(s) => {
            let with_path: Vec<usize> = b.transactions.iter().enumerate().filter(|(_, t)| !t.path.is_empty()).map(|(i, _)| i).collect();
            if with_path.is_empty() {
                return None;
            }
            let i = with_path[pick(*s, with_path.len())];
            b.transactions[i].path.pop();
        }
        IdEdit::SigTwin(s, which) => {
            if which % 2 == 0 {
                use saito_core::core::consensus::transaction::TransactionType as T;
                // transactions whose signature consensus verifies (user-signed types)
                let signed: Vec<usize> = b.transactions.iter().enumerate().filter(|(_, t)| t.signature != [0; 64] && !matches!(t.transaction_type, T::Fee | T::ATR | T::Issuance | T::SPV)).map(|(i, _)| i).collect();
                if signed.is_empty() {
                    return None;
                }
                let i = signed[pick(*s, signed.len())];
                b.transactions[i].signature = sig_twin(&b.transactions[i].signature);
            } else {
                let with_path: Vec<usize> = b.transactions.iter().enumerate().filter(|(_, t)| !t.path.is_empty()).map(|(i, _)| i).collect();
                if with_path.is_empty() {
                    return None;
                }
                let i = with_path[pick(*s, with_path.len())];
                let h = b.transactions[i].path.last_mut()?;
                h.sig = sig_twin(&h.sig);
            }
        }
        IdEdit::ZeroRootSigned(sel) => {
            let creator = (0u8..8).map(key).find(|k| k.0 == b.creator)?;
            b.merkle_root = [0; 32];
            b.generate_pre_hash();
            b.sign(&creator.1);
            if *sel % 2 == 1 && n >= 2 {
                let i = pick(*sel, n - 1);
                b.transactions.swap(i, i + 1);
            }
        }
        IdEdit::ProducerTxSig(s, bit) => {
            use saito_core::core::consensus::transaction::TransactionType as T;
            let made: Vec<usize> = b.transactions.iter().enumerate().filter(|(_, t)| matches!(t.transaction_type, T::Fee | T::ATR | T::Issuance)).map(|(i, _)| i).collect();
            if made.is_empty() {
                return None;
            }
            let i = made[pick(*s, made.len())];
            b.transactions[i].signature[*bit as usize % 64] ^= 1 << (*bit % 8);
        }
        IdEdit::MutateTxReplacements(s, r) => {
            if n == 0 {
                return None;
            }
            let t = &mut b.transactions[pick(*s, n)];
            let new = [0u32, 2, 3, 1][*r as usize % 4];
            if t.txs_replacements == new {
                return None;
            }
            t.txs_replacements = new;
        }
        IdEdit::MutateTxTimestamp(s) => {
            if n == 0 {
                return None;
            }
            b.transactions[pick(*s, n)].timestamp += 1;
        }
        IdEdit::HeaderSigned(f) => bump_signed(&mut b, *f),
        IdEdit::HeaderUnsigned(f) => {
            bump_unsigned(&mut b, *f);
            // header fields outside the signature are not covered by the statement's wording;
            // acceptance is classified, not asserted (avg_payout_mining is signed: asserted)
            asserted = *f as usize % UNSIGNED_FIELDS == 0;
        }
        IdEdit::MerkleOfEdited(s) => {
            edit_tx_list(&mut b, *s);
            b.created_hashmap_of_slips_spent_this_block = true;
            b.merkle_root = [0; 32];
            let _ = b.generate(); // fills the merkle root from the edited list
            b.created_hashmap_of_slips_spent_this_block = false;
        }
        IdEdit::ZeroMerkle => b.merkle_root = [0; 32],
        IdEdit::FlipSig(i) => b.signature[*i as usize % 64] ^= 1 << (*i % 8),
        IdEdit::CreatorNoResign => {
            let other = (0u8..6).map(key).find(|k| k.0 != b.creator)?;
            b.creator = other.0;
        }
        IdEdit::CreatorResign => {
            let other = (0u8..6).map(key).find(|k| k.0 != b.creator)?;
            re_sign(&mut b, &other, false);
            b.created_hashmap_of_slips_spent_this_block = false;
            resigned = true;
        }
        IdEdit::Identity => {}
    }
    if matches!(e, IdEdit::ZeroRootSigned(_)) {
        // handed to add_block as parsed (add_block derives hashes itself), the way a block read
        // back from a file or from a buffer is
        let e2 = Block::deserialize_from_net(&b.serialize_for_net(BlockType::Full)).ok()?;
        return Some((e2, false, true));
    }
    // across the wire once more
    let mut e2 = Block::deserialize_from_net(&b.serialize_for_net(BlockType::Full)).ok()?;
    e2.created_hashmap_of_slips_spent_this_block = true;
    let _ = e2.generate();
    e2.created_hashmap_of_slips_spent_this_block = false;
    Some((e2, resigned, asserted))
}

fn edit_name(e: &IdEdit) -> String {
    let s = format!("{:?}", e);
    s.split('(').next().unwrap_or("?").to_string()
}

#[derive(Debug, Default)]
pub struct Info {
    pub evaluated: usize,
    pub discarded: usize,
    pub txs_in_block: usize,
    pub nontrivial: Vec<String>,
    pub unasserted_accepted: usize,
    pub side_branch_states: usize,
    pub state_wrap: bool,
}

/// Re-points one value input of one user transaction of `b` to another spendable output of the same
/// owner with the same amount, slip index and type that a different transaction created.
fn repoint(orig: &Block, node: &Node, sel: u16) -> Option<(Block, bool, bool)> {
    use saito_core::core::consensus::transaction::TransactionType;
    let mut b = Block::deserialize_from_net(&orig.serialize_for_net(BlockType::Full)).ok()?;
    let mut cands = vec![];
    for (ti, t) in b.transactions.iter().enumerate() {
        if t.transaction_type != TransactionType::Normal {
            continue;
        }
        for (ii, s) in t.from.iter().enumerate() {
            if s.amount == 0 {
                continue;
            }
            for alt in node.spendable_of(&s.public_key, orig.id) {
                let used = orig.transactions.iter().any(|x| x.from.iter().any(|y| y.amount > 0 && y.block_id == alt.block_id && y.tx_ordinal == alt.tx_ordinal && y.slip_index == alt.slip_index && y.public_key == alt.public_key));
                if !used && alt.amount == s.amount && alt.slip_index == s.slip_index && alt.slip_type == s.slip_type && (alt.block_id, alt.tx_ordinal) != (s.block_id, s.tx_ordinal) {
                    cands.push((ti, ii, alt));
                }
            }
        }
    }
    if cands.is_empty() {
        return None;
    }
    let (ti, ii, alt) = cands[pick(sel, cands.len())].clone();
    b.transactions[ti].from[ii].block_id = alt.block_id;
    b.transactions[ti].from[ii].tx_ordinal = alt.tx_ordinal;
    let mut e2 = Block::deserialize_from_net(&b.serialize_for_net(BlockType::Full)).ok()?;
    e2.created_hashmap_of_slips_spent_this_block = true;
    let _ = e2.generate();
    e2.created_hashmap_of_slips_spent_this_block = false;
    Some((e2, false, true))
}

/// Offers every edit of `b` to a replica produced by `make_replica` (a node for which the unedited
/// `b` is the next acceptable block). `state` names the replica's state in keys and messages.
fn judge_edits(b: &Block, edits: &[IdEdit], state: &str, make_replica: &dyn Fn() -> Option<Deliverer>, info: &mut Info, v: &mut Vec<(String, String)>) {
    let mut d = match make_replica() {
        Some(d) => d,
        None => return,
    };
    // non-vacuity first: the unedited, round-tripped block must be acceptable in this state; for the
    // full replica a refusal is a violation, for the other states the state is simply not usable
    match apply(b, &IdEdit::Identity) {
        Some((ib, _, _)) => {
            let (out, _) = guarded_add(&mut d.node, ib, 64);
            if !matches!(out, StepOutcome::Result("added_lc")) {
                if state == "full" {
                    v.push(("C06|unedited_block_refused".into(), format!("the unedited, round-tripped block was not accepted ({})", out.name())));
                }
                return;
            }
        }
        None => return,
    }
    d = match make_replica() {
        Some(d) => d,
        None => return,
    };
    let sfx = if state == "full" { String::new() } else { format!("|state={state}") };
    for e in edits {
        let applied = if let IdEdit::RepointInput(sel) = e { repoint(b, &d.node, *sel) } else { apply(b, e) };
        let (eb, resigned, asserted) = match applied {
            Some(x) => x,
            None => {
                info.discarded += 1;
                continue;
            }
        };
        if crate::props::c09::block_eq(&eb, b) {
            // after decoding and generate() the edited block is field-for-field the original
            // (e.g. a zeroed merkle root is recomputed from the unchanged transactions): no-op
            info.discarded += 1;
            continue;
        }
        info.evaluated += 1;
        let same_hash = eb.hash == b.hash;
        let same_txs = eb.transactions.len() == b.transactions.len() && eb.transactions.iter().zip(&b.transactions).all(|(x, y)| tx_eq(x, y));
        let sig_by_stated_creator = verify_signature(&eb.pre_hash, &eb.signature, &eb.creator);
        let name = edit_name(e);
        if !matches!(e, IdEdit::HeaderUnsigned(_)) {
            info.nontrivial.push(format!("{name}{sfx}"));
        }
        let (out, _) = guarded_add(&mut d.node, eb.clone(), 64);
        let accepted = out.accepted();
        if std::env::var("VERIF_TRACE").is_ok() {
            let show = |x: &Block| x.transactions.iter().map(|t| format!("{}:{}:{} from {:?} to {:?}", tx_type_name(t.transaction_type), hx(&t.hash_for_signature.unwrap_or([0; 32])), hx(&t.signature), t.from.iter().map(|s| (s.block_id, s.tx_ordinal, s.slip_index, s.amount)).collect::<Vec<_>>(), t.to.iter().map(|s| (s.block_id, s.tx_ordinal, s.slip_index, s.amount)).collect::<Vec<_>>())).collect::<Vec<_>>();
            eprintln!("edit {:?} state {} -> {}\n  original {:?}\n  edited   {:?}", e, state, out.name(), show(b), show(&eb));
        }
        if let StepOutcome::Panicked(site, msg) = &out {
            v.push((format!("C06|edit={}|panic={}{}", name, site, sfx), format!("add_block panicked at {} on edit {:?} ({} replica): {}", site, e, state, msg)));
        }
        // the two lists carry the same transaction hashes in the same order, yet differ: the
        // difference sits in fields the transaction hash does not cover
        let same_tx_hashes = eb.transactions.len() == b.transactions.len() && eb.transactions.iter().zip(&b.transactions).all(|(x, y)| x.hash_for_signature == y.hash_for_signature && x.signature == y.signature);
        if accepted && same_hash && !same_txs && matches!(e, IdEdit::ProducerTxSig(..)) {
            v.push((
                "C06|same_hash_different_txs|producer_made_tx_signature_field".to_string(),
                format!("a block with hash {} in which the signature field of a fee / rebroadcast / issuance transaction was changed after signing was accepted by the {} replica (edit {:?})", hx(&b.hash), state, e),
            ));
        } else if accepted && same_hash && !same_txs && same_tx_hashes {
            v.push((
                "C06|same_hash_different_txs|differs_only_outside_tx_hash".to_string(),
                format!("a block with hash {} whose transactions spend different outputs than the signed ones (same transaction hashes and signatures) was accepted by the {} replica (edit {:?})", hx(&b.hash), state, e),
            ));
        } else if accepted && same_hash && !same_txs {
            v.push((
                format!("C06|same_hash_different_txs|edit={}{}", name, sfx),
                format!("a block with hash {} but a different transaction list ({} vs {} txs) was accepted by the {} replica (edit {:?})", hx(&b.hash), eb.transactions.len(), b.transactions.len(), state, e),
            ));
        } else if accepted && !resigned && asserted {
            v.push((
                format!("C06|edited_block_accepted|edit={}{}", name, sfx),
                format!("a block edited after signing was accepted by the {} replica (edit {:?}; same hash: {}, signature valid for stated creator: {})", state, e, same_hash, sig_by_stated_creator),
            ));
        } else if accepted && !asserted {
            info.unasserted_accepted += 1;
        }
        if resigned && same_hash {
            v.push(("C06|resigned_block_same_hash".into(), "a block re-signed by a different creator kept its hash".into()));
        }
        if accepted || d.dead || matches!(out, StepOutcome::Panicked(..)) {
            d = match make_replica() {
                Some(d) => d,
                None => break,
            };
        }
    }
}

fn judge_side_branch(b: &Block, edits: &[IdEdit], main: &[Block], ncfg: NodeCfg, info: &mut Info, v: &mut Vec<(String, String)>) {
    // builders: one holds the chain up to B's parent (builds the competing block S), one holds B too
    // (builds B's honest child C)
    let mut upto_parent = Deliverer::new(Node::new(ncfg, 6), 10_000);
    for blk in &main[..main.len() - 1] {
        upto_parent.deliver(blk);
    }
    if upto_parent.dead || upto_parent.node.tip().1 != b.previous_block_hash {
        return;
    }
    let parent_ts = match upto_parent.node.chain.get_latest_block() {
        Some(p) => p.timestamp,
        None => return,
    };
    let sc = key(4);
    let s_ts = parent_ts + 2 * ncfg.heartbeat + 4_321;
    let gt = if crate::props::c01::density_needs_gt(&upto_parent.node) { block_on(upto_parent.node.mine_gt(b.previous_block_hash, &sc, 8_801)) } else { None };
    let txs = if gt.is_none() { vec![carrier_tx(&sc, s_ts)] } else { vec![] };
    let sib = match block_on(upto_parent.node.make_block_as(&sc, b.previous_block_hash, s_ts, txs, gt)) {
        Ok(x) => x,
        Err(_) => return,
    };
    if sib.hash == b.hash {
        return;
    }
    let mut with_b = Deliverer::new(Node::new(ncfg, 6), 10_000);
    for blk in main {
        with_b.deliver(blk);
    }
    if with_b.dead || with_b.node.tip().1 != b.hash {
        return;
    }
    let c_ts = b.timestamp + 2 * ncfg.heartbeat + 4_567;
    let gt = if crate::props::c01::density_needs_gt(&with_b.node) { block_on(with_b.node.mine_gt(b.hash, &sc, 8_802)) } else { None };
    let txs = if gt.is_none() { vec![carrier_tx(&sc, c_ts)] } else { vec![] };
    let child = match block_on(with_b.node.make_block_as(&sc, b.hash, c_ts, txs, gt)) {
        Ok(x) => x,
        Err(_) => return,
    };
    let replica = || {
        let mut d = Deliverer::new(Node::new(ncfg, 6), 10_000);
        for blk in &main[..main.len() - 1] {
            d.deliver(blk);
        }
        let (out, _) = guarded_add(&mut d.node, sib.clone(), 64);
        if d.dead || !matches!(out, StepOutcome::Result("added_lc")) {
            None
        } else {
            Some(d)
        }
    };
    // non-vacuity: with the unedited B the branch [B, C] must win
    {
        let mut d = match replica() {
            Some(d) => d,
            None => return,
        };
        let (ib, _, _) = match apply(b, &IdEdit::Identity) {
            Some(x) => x,
            None => return,
        };
        let _ = guarded_add(&mut d.node, ib, 64);
        let _ = guarded_add(&mut d.node, child.clone(), 64);
        if d.node.tip().1 != child.hash {
            return; // the honest branch does not win in this state (burn fee, tickets): state not usable
        }
        info.side_branch_states += 1;
    }
    for e in edits {
        let (eb, _resigned, asserted) = match apply(b, e) {
            Some(x) => x,
            None => continue,
        };
        if eb.hash != b.hash || crate::props::c09::block_eq(&eb, b) || !asserted {
            continue; // another hash: the child does not connect to it; no-op edits; unasserted fields
        }
        let mut d = match replica() {
            Some(d) => d,
            None => return,
        };
        info.evaluated += 1;
        let name = edit_name(e);
        info.nontrivial.push(format!("{name}|state=side_branch_then_child"));
        let (o1, _) = guarded_add(&mut d.node, eb.clone(), 64);
        let (o2, _) = guarded_add(&mut d.node, child.clone(), 64);
        for o in [&o1, &o2] {
            if let StepOutcome::Panicked(site, msg) = o {
                v.push((format!("C06|edit={}|panic={}|state=side_branch_then_child", name, site), format!("add_block panicked at {} ({}) with the edited block on a side branch (edit {:?})", site, msg, e)));
            }
        }
        if d.node.tip().1 == child.hash {
            let same_txs = eb.transactions.len() == b.transactions.len() && eb.transactions.iter().zip(&b.transactions).all(|(x, y)| tx_eq(x, y));
            let key = if same_txs { format!("C06|edited_block_accepted|edit={}|state=side_branch_then_child", name) } else { format!("C06|same_hash_different_txs|edit={}|state=side_branch_then_child", name) };
            v.push((
                key,
                format!("the edited block (edit {:?}, hash {} as signed) arrived on a side branch, was stored, and was wound onto the longest chain when its honest child arrived: tip {}", e, hx(&b.hash), hx(&child.hash)),
            ));
            return;
        }
    }
}

pub fn run_case(case: &Case) -> (Vec<(String, String)>, Info) {
    let mut info = Info::default();
    let mut v = vec![];
    let built = block_on(build_history(&case.hist));
    if built.blocks.len() < 2 {
        return (v, info);
    }
    // B = last block of the main chain
    let main = built.main_chain_blocks();
    let b = main.last().unwrap().clone();
    info.txs_in_block = b.transactions.len();
    info.state_wrap = b.id > case.hist.ncfg.gp + 1;
    let ncfg = case.hist.ncfg;
    // (1) a replica holding the whole chain up to B's parent
    let full = || {
        let mut d = Deliverer::new(Node::new(ncfg, 6), 10_000);
        for blk in &main[..main.len() - 1] {
            d.deliver(blk);
        }
        if d.dead || d.node.tip().1 != b.previous_block_hash {
            None
        } else {
            Some(d)
        }
    };
    judge_edits(&b, &case.edits, "full", &full, &mut info, &mut v);
    if !v.is_empty() {
        return (v, info);
    }
    // (2) a node that joined mid-chain: it holds nothing but B's parent (no genesis block, less than
    // a genesis period of blocks), so everything that depends on the spendable set is not checked
    // for B - its identity still is
    if main.len() >= 3 {
        let joiner = || {
            let mut d = Deliverer::new(Node::new(ncfg, 6), 10_000);
            d.deliver(&main[main.len() - 2]);
            if d.dead || d.node.tip().1 != b.previous_block_hash {
                None
            } else {
                Some(d)
            }
        };
        judge_edits(&b, &case.edits, "joined_mid_chain", &joiner, &mut info, &mut v);
        if !v.is_empty() {
            return (v, info);
        }
    }
    // (4) the edited block arrives on a side branch: the replica's tip is an honest competing block at
    // B's height, the edited B is stored off-chain (equal length), then an honest child of B makes
    // that branch the longer one and the reorganisation winds the edited B
    if main.len() >= 2 {
        judge_side_branch(&b, &case.edits, &main, ncfg, &mut info, &mut v);
        if !v.is_empty() {
            return (v, info);
        }
    }
    // (3) the genesis block offered to an empty node
    {
        let g = main[0].clone();
        let empty = || Some(Deliverer::new(Node::new(ncfg, 6), 10_000));
        judge_edits(&g, &case.edits, "empty_node_genesis", &empty, &mut info, &mut v);
    }
    (v, info)
}

fn eval(c: &mut Ctx, case: &Case, counting: bool) -> Vec<(String, String)> {
    let (v, info) = run_case(case);
    if counting {
        c.evals(info.evaluated.max(1) as u64);
        c.discarded += info.discarded as u64;
        let bucket = info.txs_in_block.min(6);
        for n in &info.nontrivial {
            c.nontrivial(&(n.clone(), bucket, info.state_wrap, digest(&case.hist) % 64));
            c.class(&format!("edit={n}"));
        }
        if info.unasserted_accepted > 0 {
            c.class("unsigned_header_field_edit_accepted(unasserted)");
        }
        if info.state_wrap {
            c.class("state=after_window_wrap");
        }
        if info.side_branch_states > 0 {
            c.class("state=side_branch_then_child(usable)");
        }
        if info.txs_in_block >= 3 {
            c.sample_class("b", json!({"txs_in_block": info.txs_in_block, "edits": case.edits, "hist_blocks": case.hist.blocks.len(), "gp": case.hist.ncfg.gp}));
        }
    }
    v
}

pub fn arb_edit() -> impl Strategy<Value = IdEdit> {
    prop_oneof![
        any::<u16>().prop_map(IdEdit::RemoveTx),
        any::<u16>().prop_map(IdEdit::Truncate),
        any::<u16>().prop_map(IdEdit::DupTx),
        (any::<u16>(), any::<u16>()).prop_map(|(a, b)| IdEdit::SwapTx(a, b)),
        Just(IdEdit::AddTx),
        any::<u16>().prop_map(IdEdit::ReplaceTx),
        any::<u16>().prop_map(IdEdit::MutateTxAmount),
        any::<u16>().prop_map(IdEdit::MutateTxData),
        any::<u16>().prop_map(IdEdit::MutateTxTimestamp),
        (any::<u16>(), any::<u8>(), any::<u8>()).prop_map(|(s, t, r)| IdEdit::InsertTyped(s, t, r)),
        (any::<u16>(), any::<u8>(), any::<u8>()).prop_map(|(s, t, r)| IdEdit::InsertTyped(s, t, r)),
        (any::<u16>(), any::<u8>()).prop_map(|(s, r)| IdEdit::MutateTxReplacements(s, r)),
        any::<u16>().prop_map(IdEdit::RepointInput),
        any::<u16>().prop_map(IdEdit::DropLastHop),
        (any::<u16>(), any::<u8>()).prop_map(|(s, w)| IdEdit::SigTwin(s, w)),
        (any::<u16>(), any::<u8>()).prop_map(|(s, w)| IdEdit::ProducerTxSig(s, w)),
        any::<u16>().prop_map(IdEdit::ZeroRootSigned),
        (0u8..SIGNED_FIELDS as u8).prop_map(IdEdit::HeaderSigned),
        (0u8..UNSIGNED_FIELDS as u8).prop_map(IdEdit::HeaderUnsigned),
        any::<u16>().prop_map(IdEdit::MerkleOfEdited),
        Just(IdEdit::ZeroMerkle),
        any::<u8>().prop_map(IdEdit::FlipSig),
        Just(IdEdit::CreatorNoResign),
        Just(IdEdit::CreatorResign),
    ]
}

pub fn arb_case(max_blocks: usize) -> impl Strategy<Value = Case> {
    (arb_honest_hist(max_blocks), proptest::collection::vec(arb_edit(), 6..14), proptest::collection::vec(arb_txspec(), 2..5)).prop_map(|(mut hist, edits, extra)| {
        hist.ncfg.loading_completed = true;
        hist.issuance.extend([(0u8, 40_000_000u64), (1, 50_000_000), (2, 60_000_000), (3, 70_000_000)]);
        // make the last block carry several transactions
        if let Some(last) = hist.blocks.last_mut() {
            last.txs.extend(extra);
            for (i, t) in last.txs.iter_mut().enumerate() {
                t.payer = (i % 4) as u8;
                t.max_inputs = 1;
            }
        }
        Case { hist, edits }
    })
}

pub fn run(ctx: &mut Ctx) {
    ctx.rule = "a valid block B (usually >= 2 transactions; golden ticket, fee and rebroadcast transactions included) at the tip of a generated honest history (gp 4..100, before/after the window wraps) and 6..14 edits from {remove, duplicate, swap, add, replace a transaction; mutate a transaction's amount / payload / timestamp; change one of 14 signed header fields without re-signing; change one of 12 unsigned header fields; edit the list and set the merkle root accordingly without re-signing; zero the merkle root; flip a signature bit; replace a user transaction's or a routing hop's signature by its twin (r, n - s); flip a bit in the signature field of a producer-made (fee / rebroadcast / issuance) transaction; a header with an all-zero commitment signed by the creator itself, with and without a swap of two transactions; change the creator with and without re-signing; insert a slip-less transaction of type SPV/Normal/ATR/Vip with txs_replacements in {0,1,2,7}; change txs_replacements; re-point an input to another output of the same owner with equal amount, slip index and type}; each edited block crosses the wire format and is offered to a replica holding the chain up to B's parent, to a node that joined mid-chain and holds only B's parent, and (the genesis block) to an empty node; plus directed histories in which the payer owns twin outputs. oracle: same hash and different transaction list => not accepted; any edit not re-signed by the stated creator (and touching transactions or signed fields) => not accepted; re-signed by another creator => different hash; the unedited round-tripped B => accepted. evaluations = edited blocks offered. non-trivial = edit changes the transaction list or a signed header field; distinct = (edit kind, tx-count bucket, state class, history bucket)".into();
    // directed: the payer owns two outputs that differ only in the transaction that created them
    // (two equal issuance entries), so that an input can be re-pointed from one to the other
    for (n_blocks, payer) in [(1usize, 0u8), (3, 0), (3, 1), (5, 1)] {
        let mut blocks = vec![];
        for i in 0..n_blocks {
            blocks.push(BlockSpec {
                parent: None,
                dt: 250,
                gt: i % 2 == 1,
                creator: 2,
                miner: 3,
                txs: if i + 1 == n_blocks {
                    vec![TxSpec { payer, payee: 3, amount_sel: 30_000, fee: 1_000, routers: vec![], with_path: false, max_inputs: 1, nft: false }]
                } else {
                    vec![]
                },
                bad_tx: None,
                corrupt: None,
                back: None,
            });
        }
        let case = Case {
            hist: HistSpec {
                ncfg: NodeCfg::default(),
                treasury: 0,
                issuance: vec![(0, 5_000_000), (0, 5_000_000), (1, 7_000_000), (1, 7_000_000), (2, 900_000)],
                blocks,
                gt_policy: true,
            },
            edits: vec![IdEdit::RepointInput(0), IdEdit::RepointInput(40_000)],
        };
        for (k, w) in eval(ctx, &case, true) {
            ctx.violation(&k, w, json!({"check": "twin_outputs", "case": case}));
        }
    }
    let cases = ctx.tier.pick(300u32, 10_000);
    pbt_run(ctx, "identity_edits", cases, arb_case(22), |c, case, counting| eval(c, case, counting));
}

pub fn replay(ctx: &mut Ctx, v: &serde_json::Value) -> bool {
    let case: Case = match serde_json::from_value(v.get("case").cloned().unwrap_or(v.clone())) {
        Ok(c) => c,
        Err(_) => return false,
    };
    for (k, w) in eval(ctx, &case, true) {
        ctx.violation(&k, w, json!({"check": "replay", "case": case}));
    }
    true
}

#[allow(dead_code)]
fn _u(_: SaitoHash) {}
