//! C18 — a lite block is a faithful projection of its full block.

use proptest::prelude::*;
use saito_core::core::consensus::block::{Block, BlockType};
use saito_core::core::consensus::merkle::MerkleTree;
use saito_core::core::consensus::transaction::{Transaction, TransactionType};
use saito_core::core::defs::*;
use serde::{Deserialize, Serialize};
use serde_json::json;

use crate::ctx::{catch, digest, pbt_run, Ctx, Outcome};
use crate::props::c09::{header_eq, tx_eq};
use crate::world::*;

#[derive(Debug, Clone, Serialize, Deserialize, PartialEq, Eq, Hash)]
pub struct Case {
    /// per transaction: (payer key, payee key, is golden ticket)
    pub txs: Vec<(u8, u8, bool)>,
    /// key list of the light client
    pub keylist: Vec<u8>,
    /// per transaction: the txs_replacements field its signer put into it (absent / other = 1;
    /// 0, 2 and 3 are consensus-valid on any transaction)
    #[serde(default)]
    pub repl: Vec<u8>,
}

fn build_full(case: &Case) -> Block {
    let creator = key(7);
    let mut b = Block::new();
    b.id = 10;
    b.timestamp = 1_234_567;
    b.previous_block_hash = [3; 32];
    b.creator = creator.0;
    b.burnfee = 50_000_000;
    b.difficulty = 2;
    b.treasury = 11;
    b.graveyard = 12;
    b.total_fees = 13;
    b.avg_total_fees = 14;
    // every other signed numeric header field gets a distinct non-zero value, as on a chain past its
    // first window wrap (a field the lite block drops must change the hash)
    b.avg_fee_per_byte = 15;
    b.avg_nolan_rebroadcast_per_block = 16;
    b.previous_block_unpaid = 17;
    b.avg_total_fees_new = 18;
    b.avg_total_fees_atr = 19;
    b.avg_payout_routing = 20;
    b.avg_payout_mining = 21;
    b.avg_payout_treasury = 22;
    b.avg_payout_graveyard = 23;
    b.avg_payout_atr = 24;
    b.total_payout_routing = 25;
    b.total_payout_mining = 26;
    b.total_payout_treasury = 27;
    b.total_payout_graveyard = 28;
    b.total_payout_atr = 29;
    b.total_fees_new = 30;
    b.total_fees_atr = 31;
    b.fee_per_byte = 32;
    b.total_fees_cumulative = 33;
    for (i, (payer, payee, is_gt)) in case.txs.iter().enumerate() {
        let p = key(*payer);
        let mut t = Transaction::default();
        t.timestamp = 1000 + i as u64;
        let mut s = saito_core::core::consensus::slip::Slip::default();
        s.public_key = p.0;
        s.amount = 1000 + i as u64;
        s.block_id = 3;
        s.tx_ordinal = i as u64;
        t.add_from_slip(s);
        let mut o = saito_core::core::consensus::slip::Slip::default();
        o.public_key = key(*payee).0;
        o.amount = 900 + i as u64;
        t.add_to_slip(o);
        if *is_gt {
            t.transaction_type = TransactionType::GoldenTicket;
            t.data = vec![i as u8; 97];
        } else {
            t.data = vec![i as u8; (i % 5) * 3];
        }
        t.txs_replacements = match case.repl.get(i) {
            Some(0) => 0,
            Some(2) => 2,
            Some(3) => 3,
            _ => 1,
        };
        t.sign(&p.1);
        b.transactions.push(t);
    }
    b.created_hashmap_of_slips_spent_this_block = true;
    let _ = b.generate(); // fills merkle root (zero), pre-hash, hash
    b.sign(&creator.1);
    let _ = b.generate();
    b
}

fn touches(t: &Transaction, keys: &[SaitoPublicKey]) -> bool {
    t.from.iter().any(|s| keys.contains(&s.public_key)) || t.to.iter().any(|s| keys.contains(&s.public_key))
}

#[derive(Debug, Default)]
pub struct Info {
    pub n: usize,
    pub touched: usize,
    pub placeholders: usize,
    pub merged: usize,
}

pub fn run_case(case: &Case) -> (Vec<(String, String)>, Info) {
    let mut v = vec![];
    let mut info = Info::default();
    let full = build_full(case);
    info.n = full.transactions.len();
    let keys: Vec<SaitoPublicKey> = case.keylist.iter().map(|k| key(*k).0).collect();
    let lite = match catch(|| full.generate_lite_block(keys.clone())) {
        Outcome::Returned(l) => l,
        Outcome::Panicked(site, msg) => {
            v.push((format!("C18|panic|site={site}"), format!("generate_lite_block panicked at {site}: {msg}")));
            return (v, info);
        }
    };
    info.placeholders = lite.transactions.iter().filter(|t| t.transaction_type == TransactionType::SPV).count();
    info.merged = lite.transactions.iter().filter(|t| t.transaction_type == TransactionType::SPV && t.txs_replacements > 1).count();
    // an omitted transaction whose own txs_replacements field is >= 2 stands for that many leaves in
    // the full block's commitment; judged under its own key
    let omitted_many = full.transactions.iter().any(|t| !touches(t, &keys) && t.txs_replacements >= 2);
    let merged_s = if omitted_many { "omitted_tx_with_several_leaves" } else if info.merged > 0 { "merged" } else { "unmerged" };
    // header, id, hash, signature
    if lite.id != full.id || lite.hash != full.hash || lite.signature != full.signature {
        v.push(("C18|identity_fields_differ".into(), "lite block id/hash/signature differ from the full block".into()));
    }
    if !header_eq(&lite, &full) {
        v.push(("C18|header_differs".into(), "a header field of the lite block differs from the full block".into()));
    }
    // every touching transaction is present, equal and in order
    let want: Vec<&Transaction> = full.transactions.iter().filter(|t| touches(t, &keys)).collect();
    info.touched = want.len();
    let have: Vec<&Transaction> = lite.transactions.iter().filter(|t| t.transaction_type != TransactionType::SPV).collect();
    let mut hi = 0;
    for w in &want {
        let mut found = false;
        while hi < have.len() {
            if tx_eq(have[hi], w) {
                found = true;
                hi += 1;
                break;
            }
            hi += 1;
        }
        if !found {
            v.push((
                "C18|touching_tx_missing".into(),
                format!("a transaction paying to or spending from a listed key is not contained (in order, unchanged) in the lite block ({} of {} transactions touch the key list)", want.len(), full.transactions.len()),
            ));
            break;
        }
    }
    // number of transactions represented must add up
    let represented: u64 = lite.transactions.iter().map(|t| if t.transaction_type == TransactionType::SPV { t.txs_replacements as u64 } else { 1 }).sum();
    if represented != full.transactions.len() as u64 {
        v.push((format!("C18|placeholder_count|{merged_s}"), format!("lite block represents {} transactions, the full block has {}", represented, full.transactions.len())));
    }
    // the placeholders suffice to recompute the commitment (in memory, as served)
    if !full.transactions.is_empty() {
        let root = match catch(|| MerkleTree::generate(&lite.transactions).map(|t| t.get_root_hash())) {
            Outcome::Returned(r) => r,
            Outcome::Panicked(site, msg) => {
                v.push((format!("C18|commitment_not_recomputable|panic|site={site}|in_memory"), format!("recomputing the merkle root from the lite block's transactions panicked at {site}: {msg}")));
                Some(full.merkle_root)
            }
        };
        if root != Some(full.merkle_root) {
            v.push((
                format!("C18|commitment_not_recomputable|{merged_s}|in_memory"),
                format!("merkle root recomputed from the lite block's transactions ({} placeholders, {} merged) != header's", info.placeholders, info.merged),
            ));
        }
    }
    // wire round trip keeps the hash and the ability to recompute the commitment
    let wire = lite.serialize_for_net(BlockType::Full);
    match Block::deserialize_from_net(&wire) {
        Ok(mut l2) => {
            let g = catch(|| l2.generate());
            if let Outcome::Panicked(site, msg) = &g {
                v.push((format!("C18|panic|site={site}"), format!("generate() of the received lite block panicked at {site}: {msg}")));
            } else {
                if l2.hash != full.hash {
                    v.push((format!("C18|hash_lost_on_wire|{merged_s}"), "the lite block's hash after a wire round trip differs from the full block's".into()));
                }
                // "contains in full": what the receiver reconstructs for a kept transaction - including
                // the coordinates of its outputs, which the receiver's generate() assigns and a light
                // wallet stores - must be what the full block says
                for t2 in l2.transactions.iter().filter(|t| t.transaction_type != TransactionType::SPV) {
                    if let Some(tf) = full.transactions.iter().find(|t| t.signature == t2.signature) {
                        let c2: Vec<(u64, u64, u8, u64)> = t2.to.iter().map(|s| (s.block_id, s.tx_ordinal, s.slip_index, s.amount)).collect();
                        let cf: Vec<(u64, u64, u8, u64)> = tf.to.iter().map(|s| (s.block_id, s.tx_ordinal, s.slip_index, s.amount)).collect();
                        if c2 != cf {
                            v.push((
                                format!("C18|kept_tx_outputs_relocated_after_wire|{merged_s}"),
                                format!("after a wire round trip a kept transaction's outputs sit at {:?}, in the full block at {:?}", c2.first(), cf.first()),
                            ));
                            break;
                        }
                    }
                }
                if !full.transactions.is_empty() {
                    let root = match catch(|| MerkleTree::generate(&l2.transactions).map(|t| t.get_root_hash())) {
                        Outcome::Returned(r) => r,
                        Outcome::Panicked(site, msg) => {
                            v.push((format!("C18|commitment_not_recomputable|panic|site={site}|after_wire"), format!("after a wire round trip, recomputing the merkle root from the lite block's transactions panicked at {site}: {msg}")));
                            Some(full.merkle_root)
                        }
                    };
                    if root != Some(full.merkle_root) {
                        let ph = if info.placeholders > 0 { merged_s } else { "no_placeholders" };
                        v.push((
                            format!("C18|commitment_not_recomputable|{ph}|after_wire"),
                            format!("after a wire round trip the merkle root recomputed from the lite block's transactions ({} placeholders, {} merged) != header's", info.placeholders, info.merged),
                        ));
                    }
                }
            }
        }
        Err(_) => v.push(("C18|lite_block_not_decodable".into(), "the serialized lite block does not decode".into())),
    }
    (v, info)
}

fn eval(c: &mut Ctx, case: &Case, counting: bool) -> Vec<(String, String)> {
    let (v, info) = run_case(case);
    if counting {
        c.eval();
        if info.placeholders > 0 && info.touched > 0 {
            c.nontrivial(&digest(case));
        }
        if info.merged > 0 {
            c.class("with_merged_placeholders");
        } else if info.placeholders > 0 {
            c.class("with_unmerged_placeholders_only");
        } else {
            c.class("no_placeholders");
        }
        if info.merged > 0 {
            c.sample_class("m", json!({"case": case, "placeholders": info.placeholders, "merged": info.merged}));
        }
    }
    v
}

pub fn run(ctx: &mut Ctx) {
    ctx.rule = "blocks of 0..24 signed transactions (incl. golden tickets; in half of the random blocks the signers set txs_replacements to 0, 2 or 3 on some transactions) with owners from a small key set and a generated key list; exhaustive: for n <= N transactions every one of the 2^n patterns of which transactions touch the key list (hence every pattern of adjacent placeholders to merge), random beyond. oracle: id, hash, signature and every header field of the lite block equal the full block's; every transaction paying to or spending from a listed key is contained unchanged and in order; placeholders account for exactly the omitted transactions; the commitment recomputed from the lite block's transactions equals the header's, both as generated and after the lite block crossed the wire format; the hash survives the wire. (b) the HTTP route of saito-rust that serves lite blocks: the real warp server of saito_rust::network_controller is started on 127.0.0.1 over generated block files (a fresh server per sequence); generated sequences of requests for a client key (hex / base58), key-list updates of the requesting peer and requests for unknown blocks; every served answer must be byte-identical to generate_lite_block(registered key list + key) of the stored block. non-trivial = (a) at least one placeholder and one contained transaction, (b) a key-list change between two requests for one block; distinct by case digest".into();
    // exhaustive touch patterns: transaction i touches the list iff bit i of the pattern is set
    let nmax = ctx.tier.pick(8usize, 11);
    let mut count = 0u64;
    for n in 0..=nmax {
        for pat in 0..(1u32 << n) {
            let txs: Vec<(u8, u8, bool)> = (0..n).map(|i| if (pat >> i) & 1 == 1 { (0, 1, false) } else { (2, 3, false) }).collect();
            let case = Case { txs, keylist: vec![0], repl: vec![] };
            count += 1;
            for (k, w) in eval(ctx, &case, true) {
                ctx.violation(&k, w, json!({"check": "exhaustive_touch_patterns", "case": case}));
            }
        }
    }
    ctx.extra.insert("exhaustive_subspace".into(), json!({"transactions_up_to": nmax, "patterns": count}));
    let strat = (proptest::collection::vec((0u8..5, 0u8..5, prop_oneof![9 => Just(false), 1 => Just(true)]), 0..25), proptest::collection::vec(0u8..6, 0..4), prop_oneof![1 => Just(vec![]), 1 => proptest::collection::vec(prop_oneof![5 => Just(1u8), 3 => Just(0u8), 1 => Just(2u8), 1 => Just(3u8)], 0..25)]).prop_map(|(txs, keylist, repl)| Case { txs, keylist, repl });
    let cases = ctx.tier.pick(6000u32, 60_000);
    pbt_run(ctx, "random_blocks", cases, strat, |c, case, counting| eval(c, case, counting));
    // (b) the route of saito-rust that serves lite blocks, over real HTTP
    crate::props::c18_route::run(ctx);
}

pub fn replay(ctx: &mut Ctx, v: &serde_json::Value) -> bool {
    if let Some(ops) = v.get("route_case") {
        return crate::props::c18_route::replay(ctx, ops);
    }
    let case: Case = match serde_json::from_value(v.get("case").cloned().unwrap_or(v.clone())) {
        Ok(c) => c,
        Err(_) => return false,
    };
    for (k, w) in eval(ctx, &case, true) {
        ctx.violation(&k, w, json!({"check": "replay", "case": case}));
    }
    true
}
