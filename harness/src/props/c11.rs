//! C11 — no sequence of peer inputs crashes or stalls the node; rejected input does not affect
//! state used by honest peers (differential against a twin that only sees the honest traffic).

use std::collections::{BTreeMap, BTreeSet};
use std::sync::atomic::{AtomicU64, Ordering};
use std::sync::Arc;

use proptest::prelude::*;
use saito_core::core::consensus::block::{Block, BlockType};
use saito_core::core::consensus::blockchain::{VERIF_WIND_STEPS, VERIF_WIND_STEP_LIMIT};
use saito_core::core::routing_thread::{VERIF_ID_WALK_LIMIT, VERIF_ID_WALK_STEPS};
use saito_core::core::consensus::peers::peer::PeerStatus;
use saito_core::core::consensus::transaction::Transaction;
use saito_core::core::defs::*;
use saito_core::core::io::network::PeerDisconnectType;
use saito_core::core::io::network_event::NetworkEvent;
use saito_core::core::msg::message::Message;
use serde::{Deserialize, Serialize};
use serde_json::json;

use crate::adversary::*;
use crate::chain::*;
use crate::ctx::{block_on, digest, pbt_run, Ctx};
use crate::net::*;
use crate::props::c09::{arb_msg, msg_tag_name, to_message, GMsg};
use crate::refmodel::impl_utxo;
use crate::world::*;

thread_local! {
    /// set when Block::generate (run by every node on every received block) panicked while the
    /// harness assembled a block around a shaped transaction
    static SHAPE_BUILD_PANIC: std::cell::Cell<bool> = std::cell::Cell::new(false);
}
const HONEST: u64 = 1;
const HOSTILE: u64 = 2;
const UNAUTH: u64 = 3;

#[derive(Debug, Clone, Serialize, Deserialize, PartialEq, Eq, Hash)]
pub enum Ev {
    // ---- hostile ----
    /// a decodable message of any tag from the hostile (authenticated) or the unauthenticated peer
    Msg { unauth: bool, msg: GMsg },
    /// key-list updates past the rate limit
    KeyListFlood { unauth: bool, n: u8 },
    /// announce a bogus block hash, then complete the fetch with `payload`
    BogusBlock { unauth: bool, payload: Payload },
    /// hostile transaction from the edit catalogue
    HostileTx { edit: u8 },
    /// a two-block fork from the hostile peer: a valid sibling of the node's tip and a child of it
    /// carrying a catalogue transaction (e.g. a re-spend of an output spent in the common history):
    /// the longer fork triggers a reorganisation that fails at its second block
    HostileFork { edit: u8 },
    /// a correctly signed transaction of arbitrary shape (type x slip counts x slip types), see
    /// `adversary::shape_tx`
    ShapeTx { unauth: bool, code: u64 },
    /// raw undecodable bytes
    Garbage { unauth: bool, len: u8, seed: u8 },
    ConnEvent { which: u8 },
    /// a new connection on which a complete, validly signed handshake is carried out under the
    /// hostile peer's own key (which is already connected on another connection) or a fresh key
    NewConnection { key_sel: u8 },
    // ---- honest ----
    HonestTx { payer: u8, fee: u64 },
    /// the honest peer announces and serves the next valid block
    HonestBlock { with_txs: bool },
    // ---- local ----
    Tick { ms: u16 },
    Pump,
}

#[derive(Debug, Clone, Copy, Serialize, Deserialize, PartialEq, Eq, Hash)]
pub enum Payload {
    Garbage,
    Truncated,
    /// valid header, transactions edited (block-level edits of the catalogue)
    HeaderLie(u8),
    BadTx(u8),
    /// first transaction spends the same output twice inside the block
    InBlockDoubleSpend,
    /// a block for a different id/hash than announced
    WrongBlock,
    Empty,
    /// a signed transaction whose txs_replacements field is large (memory amplification)
    HugeReplacements,
    /// a block that carries a transaction of arbitrary shape (`adversary::shape_tx`); whether it is
    /// valid is not known in advance
    ShapeTx(u64),
}

#[derive(Debug, Clone, Serialize, Deserialize, PartialEq, Eq, Hash)]
pub struct Case {
    pub events: Vec<Ev>,
    /// the node under test (and its twin) runs as a lite node (Configuration::is_spv_mode): it
    /// follows ghost chains, does not serve chain requests, validates blocks in SPV mode
    #[serde(default)]
    pub lite: bool,
}

#[derive(Debug, Default)]
pub struct Info {
    pub handler_calls: usize,
    pub hostile_events: usize,
    pub honest_events: usize,
    pub honest_blocks_accepted: usize,
    pub tags: BTreeSet<String>,
}

struct Twin {
    n: NetNode,
    clock: Arc<AtomicU64>,
}

fn setup(clock: Arc<AtomicU64>, chain: &[Block], lite: bool) -> NetNode {
    let ncfg = NodeCfg { gp: 100, heartbeat: 100, social_stake: 0, loading_completed: true, prune: 8 };
    let mut n = NetNode::new_with(0, ncfg, clock, 0, 4, MemIO::new(), lite);
    let _ = n.init();
    for b in chain {
        n.add_direct(b.clone());
    }
    n.insert_connected_peer(HONEST, 1, "http://honest/");
    n.insert_connected_peer(HOSTILE, 5, "http://hostile/");
    // the unauthenticated peer only has a connection
    let _ = n.net_event(NetworkEvent::PeerConnectionResult { result: Ok((UNAUTH, None)) });
    n.take_outbox();
    n
}

fn honest_digest(n: &NetNode) -> (u64, SaitoHash, u64, BTreeSet<Vec<u8>>, u8) {
    let c = block_on(n.chain_lock.read());
    let m = block_on(n.mempool_lock.read());
    let p = block_on(n.peers_lock.read());
    let st = match p.index_to_peers.get(&HONEST).map(|x| x.peer_status.clone()) {
        Some(PeerStatus::Connected) => 2,
        Some(PeerStatus::Connecting) => 1,
        Some(PeerStatus::Disconnected(..)) => 0,
        None => 9,
    };
    (c.get_latest_block_id(), c.get_latest_block_hash(), digest(&impl_utxo(&c)), m.transactions.keys().map(|k| k.to_vec()).collect(), st)
}

pub fn run_case(case: &Case, prefix: &Built) -> (Vec<(String, String)>, Info) {
    let mut info = Info::default();
    let mut v: Vec<(String, String)> = vec![];
    let chain = prefix.main_chain_blocks();
    let clock = Arc::new(AtomicU64::new(6_000_000));
    let clock2 = Arc::new(AtomicU64::new(6_000_000));
    let mut n = setup(clock.clone(), &chain, case.lite);
    let mut twin = Twin { n: setup(clock2.clone(), &chain, case.lite), clock: clock2 };
    // a builder that follows the honest chain, to produce the honest peer's next blocks
    let mut builder = Node::new(n.cfg_ncfg(), 1);
    for b in &chain {
        block_on(builder.add(b.clone()));
    }
    VERIF_WIND_STEP_LIMIT.store(100_000, Ordering::SeqCst);
    VERIF_ID_WALK_LIMIT.store(1_000_000, Ordering::SeqCst);
    let mut salt = 0u64;
    let mut honest_tx_sigs: BTreeSet<Vec<u8>> = BTreeSet::new();

    macro_rules! call {
        ($node:expr, $what:expr, $via:expr, $hostile:expr, $e:expr) => {{
            info.handler_calls += 1;
            VERIF_WIND_STEPS.store(0, Ordering::SeqCst);
            VERIF_ID_WALK_STEPS.store(0, Ordering::SeqCst);
            let o = $e;
            if let HandlerOutcome::Panicked(site, msg) = &o {
                if $hostile {
                    v.push((format!("C11|panic|site={}|via={}", site, $via), format!("{}: handler panicked at {} ({}): {}", $what, site, $via, msg)));
                } else {
                    v.push((format!("C11|panic_on_honest_input|site={}|via={}", site, $via), format!("{}: handler panicked at {} on honest input: {}", $what, site, msg)));
                }
            }
            if VERIF_WIND_STEPS.load(Ordering::SeqCst) > 100_000 {
                v.push((format!("C11|stalled|via={}", $via), format!("{}: block processing exceeded 100000 wind/unwind steps", $what)));
            }
            if VERIF_ID_WALK_STEPS.load(Ordering::SeqCst) > 1_000_000 {
                v.push((format!("C11|stalled|walk_over_block_ids|via={}", $via), format!("{}: a handler walked over more than 1000000 block ids one by one (the block ring holds {}): a peer-supplied id bounds the loop (hook H2 stopped it)", $what, 200)));
            }
            let _ = &$node;
        }};
    }
    macro_rules! pump_all {
        ($node:expr, $via:expr, $hostile:expr) => {{
            let mut guard = 0;
            loop {
                guard += 1;
                let mut did = false;
                if let Some(o) = $node.pop_verification() {
                    did = true;
                    call!($node, "verification thread", $via, $hostile, o);
                }
                if let Some(o) = $node.pop_consensus() {
                    did = true;
                    call!($node, "consensus thread", $via, $hostile, o);
                }
                if let Some(o) = $node.pop_routing() {
                    did = true;
                    call!($node, "routing thread", $via, $hostile, o);
                }
                if let Some(o) = $node.pop_mining() {
                    did = true;
                    call!($node, "mining thread", $via, $hostile, o);
                }
                while $node.r_stat.try_recv().is_ok() {}
                if !did || guard > 2000 || !v.is_empty() {
                    break;
                }
            }
        }};
    }

    for (step, ev) in case.events.iter().enumerate() {
        salt += 1;
        if std::env::var("VERIF_TRACE").is_ok() {
            eprintln!("C11 step {step}: {}", serde_json::to_string(ev).unwrap_or_default().chars().take(300).collect::<String>());
        }
        match ev {
            Ev::Msg { unauth, msg } => {
                info.hostile_events += 1;
                let from = if *unauth { UNAUTH } else { HOSTILE };
                let m = to_message(msg);
                let tag = msg_tag_name(m.get_type_value());
                info.tags.insert(tag.to_string());
                let via = format!("msg:{}:{}", tag, if *unauth { "unauthenticated" } else { "authenticated" });
                call!(n, format!("step {step}"), via, true, n.net_event(NetworkEvent::IncomingNetworkMessage { peer_index: from, buffer: m.serialize() }));
                pump_all!(n, via, true);
            }
            Ev::KeyListFlood { unauth, n: count } => {
                info.hostile_events += 1;
                let from = if *unauth { UNAUTH } else { HOSTILE };
                let via = format!("key_list_flood:{}", if *unauth { "unauthenticated" } else { "authenticated" });
                for i in 0..(*count as usize + 95) {
                    let m = Message::KeyListUpdate(vec![key((i % 7) as u8).0]);
                    call!(n, format!("step {step}"), via, true, n.net_event(NetworkEvent::IncomingNetworkMessage { peer_index: from, buffer: m.serialize() }));
                    if !v.is_empty() {
                        break;
                    }
                }
            }
            Ev::BogusBlock { unauth, payload } => {
                info.hostile_events += 1;
                let from = if *unauth { UNAUTH } else { HOSTILE };
                let via = format!("fetched_block:{:?}", payload).split('(').next().unwrap().to_string();
                let (tip_id, tip_hash) = n.tip();
                // hostile block content built on the node's current tip by a builder holding the same chain
                SHAPE_BUILD_PANIC.with(|c| c.set(false));
                let bb = hostile_block(&builder, tip_hash, *payload, salt);
                if SHAPE_BUILD_PANIC.with(|c| c.get()) {
                    v.push(("C11|block_generate_panics|via=fetched_block:ShapeTx".into(), format!("step {step}: Block::generate (run on every received block before validation) panics on a block that carries the shaped transaction {:?}", payload)));
                    break;
                }
                let mut valid_block: Option<Block> = None;
                let (hash, id, buf) = match (&bb, payload) {
                    (_, Payload::Garbage) => ([salt as u8; 32], tip_id + 1, vec![0xAB; 300]),
                    (_, Payload::Empty) => ([salt as u8; 32], tip_id + 1, vec![]),
                    (Some((b, _)), Payload::Truncated) => {
                        let mut x = b.serialize_for_net(BlockType::Full);
                        x.truncate(x.len() * 2 / 3);
                        (b.hash, b.id, x)
                    }
                    (Some((b, _)), Payload::WrongBlock) => ([7; 32], b.id + 3, b.serialize_for_net(BlockType::Full)),
                    (Some((b, invalid)), _) => {
                        if !*invalid {
                            // the edit did not apply: this is a perfectly valid block that happens to come from
                            // the hostile peer. accepting it is correct; the twin and the builder get it too.
                            valid_block = Some(b.clone());
                        }
                        (b.hash, b.id, b.serialize_for_net(BlockType::Full))
                    }
                    (None, _) => ([salt as u8; 32], tip_id + 1, vec![1, 2, 3]),
                };
                let mut honest_copy: Option<Block> = None;
                if let Some(b) = &valid_block {
                    if res_str(&block_on(builder.add(b.clone()))) == "added_lc" {
                        honest_copy = Some(b.clone());
                        let _ = twin.n.net_event(NetworkEvent::IncomingNetworkMessage { peer_index: HONEST, buffer: Message::BlockHeaderHash(b.hash, b.id).serialize() });
                        twin.n.take_fetches();
                        let _ = twin.n.net_event(NetworkEvent::BlockFetched { block_hash: b.hash, block_id: b.id, peer_index: HONEST, buffer: b.serialize_for_net(BlockType::Full) });
                        let _ = twin.n.pump();
                    }
                }
                call!(n, format!("step {step}"), via, true, n.net_event(NetworkEvent::IncomingNetworkMessage { peer_index: from, buffer: Message::BlockHeaderHash(hash, id).serialize() }));
                n.take_fetches();
                let buf_len = buf.len();
                let ((), peak) = crate::alloc::measure(|| {
                    call!(n, format!("step {step}"), via, true, n.net_event(NetworkEvent::BlockFetched { block_hash: hash, block_id: id, peer_index: from, buffer: buf }));
                    pump_all!(n, via, true);
                });
                if peak > 64 * buf_len + 4 * 1024 * 1024 {
                    v.push((
                        format!("C11|allocation_out_of_proportion|via={via}"),
                        format!("step {step}: handling a fetched block of {buf_len} bytes allocated {peak} bytes at peak"),
                    ));
                }
                if let (Some((b, _)), Payload::ShapeTx(_)) = (&bb, payload) {
                    // validity of a shaped block is not known in advance: if the node took it as its new
                    // tip, the builder and the twin receive the same block (from the honest peer)
                    if v.is_empty() && !case.lite && n.tip().1 == b.hash {
                        let _ = block_on(builder.add(b.clone()));
                        let _ = twin.n.net_event(NetworkEvent::IncomingNetworkMessage { peer_index: HONEST, buffer: Message::BlockHeaderHash(b.hash, b.id).serialize() });
                        twin.n.take_fetches();
                        let _ = twin.n.net_event(NetworkEvent::BlockFetched { block_hash: b.hash, block_id: b.id, peer_index: HONEST, buffer: b.serialize_for_net(BlockType::Full) });
                        let _ = twin.n.pump();
                        info.tags.insert("shaped_block_accepted".into());
                    }
                }
                if let Some(b) = honest_copy {
                    // the twin got this valid block from the honest peer; so does the node (it may have
                    // ignored the hostile sender, e.g. because that connection was superseded)
                    call!(n, format!("step {step}"), "honest_copy_of_valid_block", false, n.net_event(NetworkEvent::IncomingNetworkMessage { peer_index: HONEST, buffer: Message::BlockHeaderHash(b.hash, b.id).serialize() }));
                    n.take_fetches();
                    call!(n, format!("step {step}"), "honest_copy_of_valid_block", false, n.net_event(NetworkEvent::BlockFetched { block_hash: b.hash, block_id: b.id, peer_index: HONEST, buffer: b.serialize_for_net(BlockType::Full) }));
                    pump_all!(n, "honest_copy_of_valid_block", false);
                }
            }
            Ev::HostileTx { edit } => {
                info.hostile_events += 1;
                let e = TX_EDITS[*edit as usize % TX_EDITS.len()];
                let via = format!("hostile_tx:{:?}", e);
                let (tip_id, _) = n.tip();
                let (spent, expired) = spent_and_expired(&builder, tip_id + 1);
                let ectx = EditCtx { node: &builder, attacker: 3, victim: 2, for_block_id: tip_id + 1, ts: 7_000_000 + salt, spent: &spent, expired: &expired, offchain: &[] };
                if let Some(tx) = edited_tx(e, &ectx) {
                    call!(n, format!("step {step}"), via, true, n.net_event(NetworkEvent::IncomingNetworkMessage { peer_index: HOSTILE, buffer: Message::Transaction(tx).serialize() }));
                    pump_all!(n, via, true);
                }
            }
            Ev::HostileFork { edit } => {
                info.hostile_events += 1;
                let via = "fetched_fork:valid_sibling+invalid_child";
                let (tip_id, tip_hash) = n.tip();
                let tb = match builder.chain.get_latest_block() {
                    Some(b) if b.hash == tip_hash && b.id > 1 => b.clone(),
                    _ => continue,
                };
                let creator = key(5);
                let ts = tb.timestamp + 40 + salt % 9;
                // sibling of the tip (built on the tip's parent), then its child with the bad transaction
                let gt = block_on(builder.mine_gt(tb.previous_block_hash, &creator, 6_000 + salt));
                let sib = match block_on(builder.make_block_as(&creator, tb.previous_block_hash, ts, vec![carrier_tx(&creator, ts)], gt)) {
                    Ok(b) => b,
                    Err(_) => continue,
                };
                if res_str(&block_on(builder.add(sib.clone()))) != "added_side" {
                    continue;
                }
                let (spent, expired) = spent_and_expired(&builder, tip_id + 1);
                let ectx = EditCtx { node: &builder, attacker: 3, victim: 2, for_block_id: tip_id + 1, ts: ts + 300, spent: &spent, expired: &expired, offchain: &[] };
                const KINDS: [TxEdit; 4] = [TxEdit::SpentInput, TxEdit::NonExistentInput, TxEdit::ForeignOnlyInput, TxEdit::Overspend];
                let bad = match edited_tx(KINDS[*edit as usize % KINDS.len()], &ectx) {
                    Some(t) => t,
                    None => continue,
                };
                let gt2 = block_on(builder.mine_gt(sib.hash, &creator, 6_500 + salt));
                let child = match block_on(builder.make_block_as(&creator, sib.hash, ts + 300, vec![bad], gt2)) {
                    Ok(b) => b,
                    Err(_) => continue,
                };
                info.tags.insert("hostile_two_block_fork".into());
                for blk in [&sib, &child] {
                    call!(n, format!("step {step}"), via, true, n.net_event(NetworkEvent::IncomingNetworkMessage { peer_index: HOSTILE, buffer: Message::BlockHeaderHash(blk.hash, blk.id).serialize() }));
                    n.take_fetches();
                    call!(n, format!("step {step}"), via, true, n.net_event(NetworkEvent::BlockFetched { block_hash: blk.hash, block_id: blk.id, peer_index: HOSTILE, buffer: blk.serialize_for_net(BlockType::Full) }));
                    pump_all!(n, via, true);
                }
                if v.is_empty() && n.tip().1 == child.hash {
                    // the catalogue transaction was valid on that branch (e.g. the output it re-spends
                    // was spent by the tip block only): a legitimate, longer fork. Builder and twin get it too
                    let _ = block_on(builder.add(child.clone()));
                    for blk in [&sib, &child] {
                        let _ = twin.n.net_event(NetworkEvent::IncomingNetworkMessage { peer_index: HONEST, buffer: Message::BlockHeaderHash(blk.hash, blk.id).serialize() });
                        twin.n.take_fetches();
                        let _ = twin.n.net_event(NetworkEvent::BlockFetched { block_hash: blk.hash, block_id: blk.id, peer_index: HONEST, buffer: blk.serialize_for_net(BlockType::Full) });
                        let _ = twin.n.pump();
                    }
                    info.tags.insert("hostile_fork_was_valid_and_adopted".into());
                }
            }
            Ev::ShapeTx { unauth, code } => {
                info.hostile_events += 1;
                let from = if *unauth { UNAUTH } else { HOSTILE };
                let (tip_id, _) = n.tip();
                let real = builder.spendable_of(&key(3).0, tip_id + 1).first().cloned();
                let tx = shape_tx(*code, &key(7), real.as_ref(), 7_100_000 + salt);
                let via = format!("shape_tx:{:?}:{}", tx.transaction_type, if *unauth { "unauthenticated" } else { "authenticated" });
                info.tags.insert(format!("shaped_tx:{:?}:{}in:{}out", tx.transaction_type, tx.from.len().min(3), tx.to.len().min(3)));
                call!(n, format!("step {step}"), via, true, n.net_event(NetworkEvent::IncomingNetworkMessage { peer_index: from, buffer: Message::Transaction(tx).serialize() }));
                pump_all!(n, via, true);
            }
            Ev::Garbage { unauth, len, seed } => {
                info.hostile_events += 1;
                let from = if *unauth { UNAUTH } else { HOSTILE };
                let buf: Vec<u8> = (0..*len).map(|i| i.wrapping_mul(37).wrapping_add(*seed)).collect();
                call!(n, format!("step {step}"), "garbage_bytes", true, n.net_event(NetworkEvent::IncomingNetworkMessage { peer_index: from, buffer: buf }));
                pump_all!(n, "garbage_bytes", true);
            }
            Ev::ConnEvent { which } => {
                info.hostile_events += 1;
                let via = format!("conn_event:{}", which % 4);
                let e = match which % 4 {
                    0 => NetworkEvent::PeerDisconnected { peer_index: UNAUTH, disconnect_type: PeerDisconnectType::ExternalDisconnect },
                    1 => NetworkEvent::PeerDisconnected { peer_index: 77, disconnect_type: PeerDisconnectType::InternalDisconnect },
                    2 => NetworkEvent::PeerConnectionResult { result: Ok((UNAUTH, None)) },
                    _ => NetworkEvent::BlockFetchFailed { block_hash: [9; 32], peer_index: HOSTILE, block_id: 3 },
                };
                call!(n, format!("step {step}"), via, true, n.net_event(e));
                n.take_outbox();
            }
            Ev::NewConnection { key_sel } => {
                info.hostile_events += 1;
                let same = key_sel % 2 == 0;
                let via = format!("new_connection:{}", if same { "same_key_as_connected_peer" } else { "fresh_key" });
                let idx = 60 + step as u64;
                n.take_outbox();
                call!(n, format!("step {step}"), via, true, n.net_event(NetworkEvent::PeerConnectionResult { result: Ok((idx, None)) }));
                let challenge = n.take_outbox().into_iter().filter(|(i, _)| *i == idx).find_map(|(_, b)| match Message::deserialize(b) {
                    Ok(Message::HandshakeChallenge(c)) => Some(c.challenge),
                    _ => None,
                });
                if let Some(ch) = challenge {
                    let k = if same { key(5) } else { key(9) };
                    let r = saito_core::core::msg::handshake::HandshakeResponse {
                        public_key: k.0,
                        signature: saito_core::core::util::crypto::sign(&ch, &k.1),
                        is_lite: false,
                        block_fetch_url: "http://hostile2/".into(),
                        challenge: [6; 32],
                        services: vec![],
                        wallet_version: saito_core::core::process::version::Version::new(1, 2, 3),
                        core_version: saito_core::core::process::version::Version::new(1, 2, 3),
                    };
                    call!(n, format!("step {step}"), via, true, n.net_event(NetworkEvent::IncomingNetworkMessage { peer_index: idx, buffer: Message::HandshakeResponse(r).serialize() }));
                    pump_all!(n, via, true);
                }
                n.take_outbox();
            }
            Ev::HonestTx { payer, fee } => {
                info.honest_events += 1;
                let (tip_id, _) = n.tip();
                let mut reserved = BTreeSet::new();
                let plan = TxPlan { payer: 1 + payer % 3, payee: 0, amount: 500 + salt, fee: *fee, max_inputs: 1, ts: 7_100_000 + salt };
                if let Some(tx) = build_honest_tx(&builder, &plan, tip_id + 3, &mut reserved) {
                    honest_tx_sigs.insert(tx.signature.to_vec());
                    let buf = Message::Transaction(tx).serialize();
                    call!(n, format!("step {step}"), "honest_tx", false, n.net_event(NetworkEvent::IncomingNetworkMessage { peer_index: HONEST, buffer: buf.clone() }));
                    pump_all!(n, "honest_tx", false);
                    let _ = twin.n.net_event(NetworkEvent::IncomingNetworkMessage { peer_index: HONEST, buffer: buf });
                    let _ = twin.n.pump();
                }
            }
            Ev::HonestBlock { with_txs } => {
                info.honest_events += 1;
                let (_, tip_hash) = builder.tip();
                let tb = match builder.chain.get_latest_block() {
                    Some(b) => b.clone(),
                    None => continue,
                };
                let bs = BlockSpec {
                    parent: None,
                    dt: 250,
                    gt: salt % 2 == 0,
                    creator: 1,
                    miner: 2,
                    txs: if *with_txs { vec![TxSpec { payer: 2, payee: 3, amount_sel: 3000, fee: 1500, routers: vec![], with_path: false, max_inputs: 1, nft: false }] } else { vec![] },
                    bad_tx: None,
                    corrupt: None, back: None,
                };
                let want_gt = bs.gt || crate::props::c01::density_needs_gt(&builder);
                let _ = tb;
                if let Some(b) = block_on(build_block_honest(&builder, tip_hash, &bs, want_gt, 3000 + salt)) {
                    if res_str(&block_on(builder.add(b.clone()))) != "added_lc" {
                        continue;
                    }
                    let ann = Message::BlockHeaderHash(b.hash, b.id).serialize();
                    let buf = b.serialize_for_net(BlockType::Full);
                    for (node, is_main) in [(&mut n, true), (&mut twin.n, false)] {
                        let o = node.net_event(NetworkEvent::IncomingNetworkMessage { peer_index: HONEST, buffer: ann.clone() });
                        if is_main {
                            call!(node, format!("step {step}"), "honest_block", false, o);
                        }
                        node.take_fetches();
                        let o = node.net_event(NetworkEvent::BlockFetched { block_hash: b.hash, block_id: b.id, peer_index: HONEST, buffer: buf.clone() });
                        if is_main {
                            call!(node, format!("step {step}"), "honest_block", false, o);
                            pump_all!(node, "honest_block", false);
                        } else {
                            let _ = node.pump();
                        }
                    }
                    if n.tip().1 == b.hash {
                        info.honest_blocks_accepted += 1;
                    }
                }
            }
            Ev::Tick { ms } => {
                let ms = *ms as u64 + 1;
                clock.fetch_add(ms, Ordering::SeqCst);
                twin.clock.fetch_add(ms, Ordering::SeqCst);
                call!(n, format!("step {step}"), "timer", false, n.routing_timer(ms));
                call!(n, format!("step {step}"), "timer", false, n.consensus_timer(ms));
                let _ = twin.n.routing_timer(ms);
                let _ = twin.n.consensus_timer(ms);
                n.take_outbox();
                twin.n.take_outbox();
            }
            Ev::Pump => {
                pump_all!(n, "pump", false);
                let _ = twin.n.pump();
            }
        }
        // rejected input must not move the tip: checked after every event, so that a corrupted chain
        // index is reported before it can make a later handler run (practically) for ever
        // (a lite node trusts the peer it syncs from by design - it follows ghost chains and validates
        // blocks in SPV mode - so for lite nodes only the first half of the statement is judged:
        // every handler returns)
        if v.is_empty() && !case.lite {
            let (a, b) = (n.tip(), twin.n.tip());
            if a != b {
                let via = serde_json::to_string(ev).unwrap_or_default();
                let kind = via.split('"').nth(1).unwrap_or("?").to_string();
                let tag = if let Ev::Msg { msg, .. } = ev { format!(":{}", msg_tag_name(to_message(msg).get_type_value())) } else { String::new() };
                v.push((
                    format!("C11|tip_differs_from_honest_only_twin|after={kind}{tag}"),
                    format!("step {step}: after this event the node's tip is {}/{} while a twin that saw only the honest traffic is at {}/{}", a.0, hx(&a.1), b.0, hx(&b.1)),
                ));
            }
        }
        n.take_fetches();
        n.take_outbox();
        n.io.st.broadcast.lock().unwrap().clear();
        twin.n.take_fetches();
        twin.n.take_outbox();
        twin.n.io.st.broadcast.lock().unwrap().clear();
        if !v.is_empty() {
            break;
        }
    }
    VERIF_WIND_STEP_LIMIT.store(u64::MAX, Ordering::SeqCst);
    VERIF_ID_WALK_LIMIT.store(u64::MAX, Ordering::SeqCst);
    if v.is_empty() {
        // collateral damage: compare with the twin that only saw the honest sub-sequence
        pump_all!(n, "final_pump", false);
        let _ = twin.n.pump();
        let a = honest_digest(&n);
        let b = if case.lite { honest_digest(&n) } else { honest_digest(&twin.n) };
        if (a.0, a.1, a.2) != (b.0, b.1, b.2) {
            v.push(("C11|ledger_differs_from_honest_only_twin".into(), format!("after the sequence the node is at height {} ({}), a twin that saw only the honest traffic at height {} ({}); utxoset equal: {}", a.0, hx(&a.1), b.0, hx(&b.1), a.2 == b.2)));
        }
        let ha: BTreeSet<&Vec<u8>> = a.3.iter().filter(|s| honest_tx_sigs.contains(*s)).collect();
        let hb: BTreeSet<&Vec<u8>> = b.3.iter().filter(|s| honest_tx_sigs.contains(*s)).collect();
        if ha != hb {
            v.push(("C11|honest_pool_content_differs".into(), format!("honest transactions pooled: {} on the node, {} on the honest-only twin", ha.len(), hb.len())));
        }
        if a.4 != b.4 {
            v.push(("C11|honest_peer_status_differs".into(), format!("honest peer status {} on the node vs {} on the twin", a.4, b.4)));
        }
    }
    (v, info)
}

fn hostile_block(builder: &Node, tip_hash: SaitoHash, payload: Payload, salt: u64) -> Option<(Block, bool)> {
    let tb = builder.chain.get_latest_block()?.clone();
    let ts = tb.timestamp + 260 + salt % 7;
    let creator = key(5);
    let gt = if crate::props::c01::density_needs_gt(builder) { block_on(builder.mine_gt(tip_hash, &creator, 5000 + salt)) } else { None };
    match payload {
        Payload::BadTx(e) => {
            let (spent, expired) = spent_and_expired(builder, tb.id + 1);
            let ectx = EditCtx { node: builder, attacker: 3, victim: 2, for_block_id: tb.id + 1, ts, spent: &spent, expired: &expired, offchain: &[] };
            let bad = edited_tx(TX_EDITS[e as usize % TX_EDITS.len()], &ectx)?;
            block_on(builder.make_block_as(&creator, tip_hash, ts, vec![bad], gt)).ok().map(|b| (b, true))
        }
        Payload::InBlockDoubleSpend => {
            let s = builder.spendable_of(&key(3).0, tb.id + 1).first().cloned()?;
            let t1 = tx_from_inputs(vec![s.clone()], vec![(key(3).0, s.amount)], &key(3), ts, vec![]);
            let t2 = tx_from_inputs(vec![s.clone()], vec![(key(2).0, s.amount)], &key(3), ts + 1, vec![]);
            // Block::create refuses the double spend; assemble by hand from an honest block
            let mut b = block_on(builder.make_block_as(&creator, tip_hash, ts, vec![t1], gt)).ok()?;
            b.transactions.insert(1.min(b.transactions.len()), t2);
            re_sign(&mut b, &creator, true);
            Some((b, true))
        }
        Payload::HugeReplacements => {
            let c = key(3);
            let mut t = saito_core::core::consensus::transaction::Transaction::default();
            let mut s = saito_core::core::consensus::slip::Slip::default();
            s.public_key = c.0;
            t.add_from_slip(s.clone());
            t.add_to_slip(s);
            t.timestamp = ts;
            t.txs_replacements = 50_000;
            t.sign(&c.1);
            t.generate(&creator.0, 0, 0);
            block_on(builder.make_block_as(&creator, tip_hash, ts, vec![t], gt)).ok().map(|b| (b, false))
        }
        Payload::ShapeTx(code) => {
            let real = builder.spendable_of(&key(3).0, tb.id + 1).first().cloned();
            let t = shape_tx(code, &key(7), real.as_ref(), ts);
            let mut b = block_on(builder.make_block_as(&creator, tip_hash, ts, vec![carrier_tx(&creator, ts)], gt)).ok()?;
            b.transactions.push(t);
            // Block::generate is the routine every node runs on a received block; should it not be
            // total on this shape, the block cannot be built here and the case is skipped (counted)
            let r = std::panic::catch_unwind(std::panic::AssertUnwindSafe(|| {
                let mut b = b;
                re_sign(&mut b, &creator, true);
                b
            }));
            match r {
                Ok(b) => Some((b, true)),
                Err(_) => {
                    SHAPE_BUILD_PANIC.with(|c| c.set(true));
                    None
                }
            }
        }
        Payload::HeaderLie(e) => {
            let mut b = block_on(builder.make_block_as(&creator, tip_hash, ts, vec![carrier_tx(&creator, ts)], gt)).ok()?;
            let applied = apply_block_edit(&mut b, BLOCK_EDITS[e as usize % BLOCK_EDITS.len()], &creator, tb.difficulty);
            Some((b, applied))
        }
        _ => block_on(builder.make_block_as(&creator, tip_hash, ts, vec![carrier_tx(&creator, ts)], gt)).ok().map(|b| (b, false)),
    }
}

fn eval(c: &mut Ctx, case: &Case, prefix: &Built, counting: bool) -> Vec<(String, String)> {
    let (v, info) = run_case(case, prefix);
    if counting {
        c.evals(info.handler_calls.max(1) as u64);
        if info.hostile_events > 0 && info.honest_events > 0 {
            c.nontrivial(&digest(case));
        }
        for t in &info.tags {
            c.class(&format!("hostile_msg_tag={t}"));
        }
        if info.honest_blocks_accepted > 0 {
            c.class("honest_block_accepted_amid_hostile_traffic");
        }
        if case.lite {
            c.class("node_under_test_is_a_lite_node");
        }
        if info.hostile_events > 3 && info.honest_blocks_accepted > 0 {
            c.sample_class("mix", json!({"case": case, "info": format!("{:?}", info)}));
        }
    }
    v
}

pub fn arb_payload() -> impl Strategy<Value = Payload> {
    prop_oneof![
        4 => Just(Payload::Garbage),
        4 => Just(Payload::Truncated),
        4 => any::<u8>().prop_map(Payload::HeaderLie),
        4 => any::<u8>().prop_map(Payload::BadTx),
        4 => Just(Payload::InBlockDoubleSpend),
        4 => Just(Payload::WrongBlock),
        4 => Just(Payload::Empty),
        1 => Just(Payload::HugeReplacements),
        6 => any::<u64>().prop_map(Payload::ShapeTx),
    ]
}

pub fn arb_ev() -> impl Strategy<Value = Ev> {
    prop_oneof![
        8 => (any::<bool>(), arb_msg()).prop_map(|(unauth, msg)| Ev::Msg { unauth, msg }),
        1 => (any::<bool>(), 0u8..20).prop_map(|(unauth, n)| Ev::KeyListFlood { unauth, n }),
        4 => (any::<bool>(), arb_payload()).prop_map(|(unauth, payload)| Ev::BogusBlock { unauth, payload }),
        2 => any::<u8>().prop_map(|edit| Ev::HostileTx { edit }),
        3 => (any::<bool>(), any::<u64>()).prop_map(|(unauth, code)| Ev::ShapeTx { unauth, code }),
        2 => any::<u8>().prop_map(|edit| Ev::HostileFork { edit }),
        1 => (any::<bool>(), any::<u8>(), any::<u8>()).prop_map(|(unauth, len, seed)| Ev::Garbage { unauth, len, seed }),
        1 => any::<u8>().prop_map(|which| Ev::ConnEvent { which }),
        1 => any::<u8>().prop_map(|key_sel| Ev::NewConnection { key_sel }),
        3 => (0u8..3, prop_oneof![Just(0u64), 1u64..5000]).prop_map(|(payer, fee)| Ev::HonestTx { payer, fee }),
        3 => any::<bool>().prop_map(|with_txs| Ev::HonestBlock { with_txs }),
        2 => any::<u16>().prop_map(|ms| Ev::Tick { ms }),
        1 => Just(Ev::Pump),
    ]
}

pub fn prefix() -> Built {
    let ncfg = NodeCfg { gp: 100, heartbeat: 100, social_stake: 0, loading_completed: true, prune: 8 };
    let blocks = (0..6)
        .map(|i| BlockSpec {
            parent: None,
            dt: 250,
            gt: i % 2 == 0,
            creator: 1,
            miner: 2,
            txs: vec![TxSpec { payer: (i % 3 + 1) as u8, payee: 0, amount_sel: 2000, fee: 1000, routers: vec![], with_path: false, max_inputs: 1, nft: false }],
            bad_tx: None,
            corrupt: None, back: None,
        })
        .collect();
    let spec = HistSpec { ncfg, treasury: 0, issuance: vec![(0, 50_000_000), (1, 60_000_000), (2, 70_000_000), (3, 80_000_000), (1, 5_000_000), (2, 6_000_000), (3, 7_000_000)], blocks, gt_policy: true };
    block_on(build_history(&spec))
}

pub fn run(ctx: &mut Ctx) {
    ctx.rule = "a node built from the real routing, verification, consensus and mining threads holding a 7-block chain, with an honest authenticated peer, a hostile authenticated peer and a hostile peer that never completed the handshake; generated sequences of 3..40 events: decodable messages of every tag from either hostile peer (generated with the C09 value generators: blocks, transactions, handshake messages, chain requests with arbitrary fork ids, ghost-chain records and requests, services, API messages, key lists), key-list floods past the rate limit, bogus block announcements whose fetch is answered with garbage / truncated / empty buffers, blocks for another hash, blocks with header lies, catalogue transactions or an in-block double spend, two-block forks (a valid sibling of the tip and an invalid child of it, so that a reorganisation fails part-way), hostile catalogue transactions, undecodable bytes, connection events, interleaved with honest transactions and honest next blocks from the honest peer, timer ticks and explicit channel pumping. oracle: every handler invocation (network event, each internal channel event, timers) returns - a panic is a violation keyed by panic site and input kind; block processing stays under 1e5 wind/unwind steps (hook H1); differential: a twin node that receives only the honest sub-sequence ends with the same tip, utxoset, pooled honest transactions and honest-peer status. In one case of five the node under test is a lite (SPV) node; a lite node trusts its peer by design, so only the panic / step-bound oracle applies there. evaluations = handler invocations. non-trivial = sequence mixes hostile and honest events; distinct by case digest".into();
    let pre = prefix();
    let strat = (proptest::collection::vec(arb_ev(), 3..40), prop_oneof![4 => Just(false), 1 => Just(true)]).prop_map(|(events, lite)| Case { events, lite });
    let cases = ctx.tier.pick(500u32, 20_000);
    pbt_run(ctx, "hostile_sequences", cases, strat, |c, case, counting| eval(c, case, &pre, counting));
}

pub fn replay(ctx: &mut Ctx, v: &serde_json::Value) -> bool {
    let case: Case = match serde_json::from_value(v.get("case").cloned().unwrap_or(v.clone())) {
        Ok(c) => c,
        Err(_) => return false,
    };
    let pre = prefix();
    for (k, w) in eval(ctx, &case, &pre, true) {
        ctx.violation(&k, w, json!({"check": "replay", "case": case}));
    }
    true
}

#[allow(dead_code)]
fn _u(_: BTreeMap<u8, u8>, _: Transaction) {}
