//! C04 — a rejected block leaves no trace and block processing always returns within a bound.
//! Fault enumeration: fork shape x offending position x kind of invalidity x chain content.

use saito_core::core::defs::*;
use serde::{Deserialize, Serialize};
use serde_json::json;

use crate::adversary::{BlockEdit, TxEdit, BLOCK_EDITS};
use crate::chain::*;
use crate::ctx::{block_on, Ctx};
use crate::deliver::*;
use crate::observe::*;
use crate::world::*;

#[derive(Debug, Clone, Copy, Serialize, Deserialize, PartialEq, Eq, Hash)]
pub enum Kind {
    Hdr(BlockEdit),
    Tx(TxEdit),
}

#[derive(Debug, Clone, Serialize, Deserialize, PartialEq, Eq, Hash)]
pub struct Case {
    pub gp: u64,
    pub loading_completed: bool,
    /// main chain length beyond genesis
    pub m: usize,
    /// fork depth: candidate chain forks `d` blocks below the main tip (0 = extends the tip)
    pub d: usize,
    /// candidate chain length
    pub k: usize,
    /// index (0-based, from the fork point) of the offending candidate block
    pub pos: usize,
    pub kind: Kind,
    pub with_txs: bool,
    /// consensus.prune_after_blocks
    #[serde(default = "eight")]
    pub prune: u64,
    /// key index of the node's own wallet (5 = a key that never transacts; 0/1 = the payers of the
    /// competing chains, so that winding and unwinding touches the wallet)
    #[serde(default = "five")]
    pub owner: u8,
    /// 0: main chain of m blocks, candidate chain of k blocks forking d below the tip.
    /// 1: a *returning* fork: chain B (m blocks) is the longest chain first, chain A (m+1 blocks
    /// from genesis) overtakes it, then B is extended by a valid block and an invalid one: the
    /// reorganisation back onto B winds blocks that were on the chain before (and may have been
    /// pruned from memory) and fails at its last block
    /// 2: an early block: after the main chain of m blocks, block m+2 is delivered before block m+1
    /// (it is stored off-chain), block m+1 becomes the tip, then an invalid block m+3 on top of
    /// m+2 is offered: a two-block candidate on an empty old chain whose second block fails
    #[serde(default)]
    pub shape: u8,
}
fn five() -> u8 {
    5
}
fn eight() -> u64 {
    8
}

pub const TX_KINDS: [TxEdit; 7] = [
    TxEdit::ForgedSig,
    TxEdit::NonExistentInput,
    TxEdit::Overspend,
    TxEdit::SpentInput,
    TxEdit::InflatedInput,
    TxEdit::NoSig,
    TxEdit::MutatedAfterSign,
];

fn bs(i: usize, with_txs: bool, parent: Option<u16>) -> BlockSpec {
    BlockSpec {
        parent,
        dt: 250,
        gt: i % 2 == 0,
        creator: (i % 2) as u8,
        miner: 2,
        txs: if with_txs {
            vec![TxSpec {
                payer: (i % 2) as u8,
                payee: 3,
                amount_sel: 9_000,
                fee: 2_000 + i as u64,
                routers: vec![],
                with_path: false,
                max_inputs: 2,
                nft: false,
            }]
        } else {
            vec![]
        },
        bad_tx: None,
        corrupt: None, back: None,
    }
}

fn sel_for(idx: usize, len: usize) -> u16 {
    (((idx as u64) << 16).div_ceil(len as u64)) as u16
}

pub fn hist_of(c: &Case) -> HistSpec {
    let mut blocks = vec![];
    if c.shape == 2 {
        for i in 0..c.m + 2 {
            blocks.push(bs(i, c.with_txs, None));
        }
        let mut e3 = bs(c.m + 2, c.with_txs, None);
        match c.kind {
            Kind::Hdr(e) => e3.corrupt = Some(e),
            Kind::Tx(e) => e3.bad_tx = Some((e, 1, 0)),
        }
        blocks.push(e3);
        return HistSpec {
            ncfg: NodeCfg { gp: c.gp, heartbeat: 100, social_stake: 0, loading_completed: c.loading_completed, prune: c.prune },
            treasury: 0,
            issuance: vec![(0, 50_000_000), (1, 70_000_000), (0, 30_000_000), (1, 9_000_000), (2, 1_000)],
            blocks,
            gt_policy: true,
        };
    }
    if c.shape == 1 {
        // B: blocks 1..=m ; A: m+1 blocks from genesis ; B extension: valid, then offending
        for i in 0..c.m {
            blocks.push(bs(i, c.with_txs, None));
        }
        for j in 0..=c.m {
            let len = 1 + c.m + j;
            let mut b = bs(100 + j, c.with_txs, if j == 0 { Some(sel_for(0, len)) } else { None });
            b.dt = 240;
            blocks.push(b);
        }
        let len = 1 + c.m + c.m + 1;
        let mut e1 = bs(200, c.with_txs, Some(sel_for(c.m, len))); // child of B's last block
        e1.dt = 230;
        blocks.push(e1);
        let mut e2 = bs(201, c.with_txs, None);
        e2.dt = 230;
        match c.kind {
            Kind::Hdr(e) => e2.corrupt = Some(e),
            Kind::Tx(e) => e2.bad_tx = Some((e, 1, 0)),
        }
        blocks.push(e2);
        return HistSpec {
            ncfg: NodeCfg { gp: c.gp, heartbeat: 100, social_stake: 0, loading_completed: c.loading_completed, prune: c.prune },
            treasury: 0,
            issuance: vec![(0, 50_000_000), (1, 70_000_000), (0, 30_000_000), (1, 9_000_000), (2, 1_000)],
            blocks,
            gt_policy: true,
        };
    }
    for i in 0..c.m {
        blocks.push(bs(i, c.with_txs, None));
    }
    // candidate chain: first block's parent = built index (m - d) [index 0 = genesis]
    for j in 0..c.k {
        let len = 1 + c.m + j;
        let parent = if j == 0 { Some(sel_for(c.m - c.d, len)) } else { None };
        let mut b = bs(100 + j, c.with_txs, parent);
        b.dt = 240; // different timestamps => different blocks than the main chain
        if j == c.pos {
            match c.kind {
                Kind::Hdr(e) => b.corrupt = Some(e),
                Kind::Tx(e) => b.bad_tx = Some((e, 1, 0)),
            }
        }
        blocks.push(b);
    }
    HistSpec {
        ncfg: NodeCfg {
            gp: c.gp,
            heartbeat: 100,
            social_stake: 0,
            loading_completed: c.loading_completed,
            prune: c.prune,
        },
        treasury: 0,
        issuance: vec![(0, 50_000_000), (1, 70_000_000), (0, 30_000_000), (1, 9_000_000), (2, 1_000)],
        blocks,
        gt_policy: true,
    }
}

#[derive(Debug, Default)]
pub struct Info {
    pub offending_built: bool,
    pub reorg_attempted: bool,
    pub rejected: usize,
    pub steps_max: u64,
    pub nontrivial: bool,
}

fn pos_class(c: &Case) -> &'static str {
    if c.pos == 0 {
        "first"
    } else if c.pos == c.k - 1 {
        "last"
    } else {
        "middle"
    }
}

pub fn run_case(c: &Case) -> (Vec<(String, String)>, Info) {
    let hist = hist_of(c);
    let built = block_on(build_history(&hist));
    let mut info = Info::default();
    let mut v = vec![];
    let offending_idx = if c.shape == 2 {
        1 + c.m + 2
    } else if c.shape == 1 {
        1 + c.m + c.m + 1 + 1
    } else {
        1 + c.m + c.pos
    };
    if built.blocks.len() <= offending_idx || built.invalid[offending_idx].is_none() {
        return (v, info); // edit not applicable in this state (discarded)
    }
    info.offending_built = true;
    let table = BlockTable::from_blocks(&built.blocks);
    let max_id = built.blocks.iter().map(|b| b.id).max().unwrap_or(1) + 1;
    let mut d = Deliverer::new(Node::new(hist.ncfg, c.owner), u64::MAX);
    let kind_s = match c.kind {
        Kind::Hdr(e) => format!("hdr:{:?}", e),
        Kind::Tx(e) => format!("tx:{:?}", e),
    };
    // delivery order: as built, except for shape 2 where block m+2 comes before block m+1
    let mut order: Vec<usize> = (0..built.blocks.len()).collect();
    if c.shape == 2 && built.blocks.len() == c.m + 4 {
        order.swap(c.m + 1, c.m + 2);
    }
    for i in order {
        let b = &built.blocks[i];
        if d.dead {
            break;
        }
        // bound: |old| + |new| of the reorganisation this delivery could trigger
        let old_len = c.d as u64;
        let new_len = (i as u64).saturating_sub(c.m as u64);
        d.step_bound = if c.shape == 2 {
            2 * 3 + 2
        } else if c.shape == 1 {
            2 * (2 * c.m as u64 + 4) + 2
        } else {
            2 * (old_len + new_len.max(1)) + 2
        };
        let before = block_on(snapshot(&d.node, max_id));
        let outs = d.deliver(b);
        for o in &outs {
            info.steps_max = info.steps_max.max(o.steps);
            let after_ok = !d.dead;
            match &o.outcome {
                StepOutcome::Panicked(site, msg) => {
                    v.push((
                        format!("C04|panic|site={}|kind={}", site, kind_s),
                        format!("add_block panicked at {} ({}) delivering block idx {} (offending idx {}, kind {})", site, msg, i, offending_idx, kind_s),
                    ));
                }
                StepOutcome::Diverged(steps) => {
                    v.push((
                        format!("C04|diverged|pos={}|old={}", pos_class(c), if c.d > 0 { ">0" } else { "0" }),
                        format!("add_block took {} wind/unwind steps (bound {}) delivering block idx {}: m={} d={} k={} pos={} kind={}", steps, d.step_bound, i, c.m, c.d, c.k, c.pos, kind_s),
                    ));
                }
                StepOutcome::Result(r) => {
                    if *r == "invalid" {
                        info.rejected += 1;
                    }
                    if !o.outcome.accepted() && *r != "exists" && after_ok {
                        // not accepted: no trace
                        let after = block_on(snapshot(&d.node, max_id));
                        let diff = snapshot_diff(&before, &after);
                        if i > c.m && c.d > 0 {
                            info.reorg_attempted = true;
                        }
                        if !diff.is_empty() {
                            v.push((
                                format!("C04|trace={}|pos={}|old={}", diff.join("+"), pos_class(c), if c.d > 0 { ">0" } else { "0" }),
                                format!("rejected block idx {} (result {}) changed {:?}: m={} d={} k={} pos={} kind={}", i, r, diff, c.m, c.d, c.k, c.pos, kind_s),
                            ));
                        }
                    }
                    if i >= offending_idx && o.outcome.accepted() && o.tip_after.1 != o.tip_before.1 {
                        // tip moved onto a chain containing the offending block
                        if let Some(path) = table.path(&o.tip_after.1) {
                            if path.iter().any(|pb| pb.hash == built.blocks[offending_idx].hash) {
                                v.push((
                                    format!("C04|invalid_chain_adopted|kind={}", kind_s),
                                    format!("tip moved to a chain containing the invalid block idx {} ({})", offending_idx, kind_s),
                                ));
                            }
                        }
                    }
                }
            }
        }
        if !v.is_empty() {
            break;
        }
    }
    // the node must still be consistent and usable afterwards
    if v.is_empty() && !d.dead {
        for (suffix, what) in check_consistency(&d.node, &table, max_id) {
            v.push((format!("C04|after={}|pos={}", suffix, pos_class(c)), what));
        }
    }
    info.nontrivial = info.offending_built && c.pos > 0 && c.d > 0;
    (v, info)
}

pub fn cases(thorough: bool) -> Vec<Case> {
    let mut out = vec![];
    let mmax = if thorough { 8 } else { 5 };
    let mut kinds: Vec<Kind> = BLOCK_EDITS
        .iter()
        .filter(|e| !matches!(e, BlockEdit::Empty))
        .map(|e| Kind::Hdr(*e))
        .collect();
    // payout lies (applicable to candidate blocks that carry a fee transaction)
    kinds.extend(crate::adversary::PAYOUT_EDITS.iter().map(|e| Kind::Hdr(*e)));
    kinds.extend(crate::adversary::ID_EDITS.iter().map(|e| Kind::Hdr(*e)));
    kinds.extend(TX_KINDS.iter().map(|e| Kind::Tx(*e)));
    // returning forks (shape 1)
    for m in 2..=(if thorough { 6 } else { 4 }) {
        for kind in [Kind::Hdr(BlockEdit::BurnFee), Kind::Hdr(BlockEdit::CreatorSig), Kind::Tx(TxEdit::NonExistentInput), Kind::Tx(TxEdit::SpentInput)] {
            for (prune, owner) in [(2u64, 5u8), (2, 0), (8, 0)] {
                out.push(Case { gp: 100, loading_completed: true, m, d: m, k: m + 1, pos: 1, kind, with_txs: true, prune, owner, shape: 1 });
            }
        }
    }
    // chains past the window wrap (small genesis period): the blocks that a failed reorganisation
    // unwinds and winds again contain rebroadcasts and spends of outputs close to expiry
    for gp in [4u64, 5] {
        for m in (gp as usize + 1)..=(gp as usize + if thorough { 7 } else { 4 }) {
            for d in 1..=3usize {
                for kind in [Kind::Hdr(BlockEdit::BurnFee), Kind::Hdr(BlockEdit::CreatorSig), Kind::Tx(TxEdit::NonExistentInput), Kind::Tx(TxEdit::SpentInput)] {
                    for owner in [5u8, 0] {
                        out.push(Case { shape: 0, prune: 8, owner, gp, loading_completed: true, m, d, k: d + 1, pos: d, kind, with_txs: true });
                    }
                }
            }
        }
    }
    // early block (shape 2): a two-block candidate on an empty old chain whose second block fails
    for m in 1..=(if thorough { 6 } else { 4 }) {
        for kind in kinds.iter().step_by(if thorough { 1 } else { 3 }) {
            for owner in [5u8, 0] {
                out.push(Case { shape: 2, prune: 8, owner, gp: 100, loading_completed: false, m, d: 0, k: 2, pos: 1, kind: *kind, with_txs: true });
            }
        }
    }
    for loading_completed in [true, false] {
        for m in 1..=mmax {
            for d in 0..=m.min(if thorough { 6 } else { 3 }) {
                let k = d + 1;
                for pos in 0..k {
                    for (ki, kind) in kinds.iter().enumerate() {
                        // quick tier: thin out the kind x shape product deterministically
                        if !thorough && (m + d + pos + ki) % 2 == 1 && !(pos > 0 && d > 0 && m <= 3) {
                            continue;
                        }
                        for (with_txs, prune, owner) in [(true, 8u64, 5u8), (false, 8, 5), (true, 2, 0), (true, 8, 0), (true, 8, 1)] {
                            // the node's wallet only matters if a valid candidate block is wound and unwound
                            if owner != 5 && prune == 8 && pos == 0 {
                                continue;
                            }
                            if !with_txs && matches!(kind, Kind::Tx(_)) {
                                continue;
                            }
                            // with pruning after 2 blocks a roll-back of depth >= 2 crosses pruned blocks
                            if prune != 8 && d < 2 {
                                continue;
                            }
                            out.push(Case {
                                shape: 0,
                                prune,
                                owner,
                                gp: if m + k > 6 { 6 } else { 100 },
                                loading_completed,
                                m,
                                d,
                                k,
                                pos,
                                kind: *kind,
                                with_txs,
                            });
                        }
                    }
                }
            }
        }
    }
    out
}

fn eval(ctx: &mut Ctx, c: &Case) {
    let (v, info) = run_case(c);
    ctx.eval();
    if !info.offending_built {
        ctx.discarded += 1;
        return;
    }
    if info.nontrivial {
        ctx.nontrivial(c);
    }
    ctx.class(&format!("pos={}", pos_class(c)));
    if c.d > 0 {
        ctx.class("with_competing_chain");
    } else {
        ctx.class("extension_of_tip");
    }
    if info.nontrivial {
        ctx.sample_class(&format!("{}-{:?}", pos_class(c), matches!(c.kind, Kind::Tx(_))), json!({"case": c, "steps_max": info.steps_max, "rejected": info.rejected}));
    }
    let e = ctx.extra.entry("max_steps_observed".into()).or_insert(json!(0));
    if e.as_u64().unwrap_or(0) < info.steps_max {
        *e = json!(info.steps_max);
    }
    for (k, w) in v {
        ctx.violation(&k, w, json!({"case": c}));
    }
}

pub fn run(ctx: &mut Ctx) {
    ctx.rule = "enumerated: main chain length m, fork depth d, candidate chain length d+1 (a reorganisation is attempted when its last block arrives), offending block at every position of the candidate chain, kind of invalidity in {9 header lies incl. wrong creator signature and golden ticket for a wrong target, 7 invalid-transaction edits}, competing chains with and without transactions, both values of initial_loading_completed; the offending block is made acceptable-looking to its children by a harness-side builder, every block is delivered in tree order. oracle: full observable snapshot (tip, utxoset, by-height index, stored blocks + flags, wallet slips/balance) is identical before/after every delivery that is not accepted; hook H1 step count <= 2(|old|+|new|)+2; tip never moves onto a chain containing the offending block; C03 consistency holds at the end. non-trivial = offending block is not the first of the candidate chain and the old chain segment is non-empty".into();
    ctx.assumptions.push("Children of the offending block are built by a harness-side builder that was made to treat the offending block as accepted (force_accept); their own content is valid relative to that parent.".into());
    let cs = cases(ctx.tier == crate::ctx::Tier::Thorough);
    ctx.extra.insert("enumerated_cases".into(), json!(cs.len()));
    ctx.exhaustive = Some(true);
    for c in &cs {
        eval(ctx, c);
    }
}

pub fn replay(ctx: &mut Ctx, v: &serde_json::Value) -> bool {
    let c: Case = match serde_json::from_value(v.get("case").cloned().unwrap_or(v.clone())) {
        Ok(c) => c,
        Err(_) => return false,
    };
    eval(ctx, &c);
    true
}

#[allow(dead_code)]
fn _u(_: SaitoHash) {}
