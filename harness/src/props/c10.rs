//! C10 — decoders are total: every byte string yields Ok or Err; never a panic, never an
//! allocation beyond a small multiple of the input length.

use proptest::prelude::*;
use proptest::strategy::ValueTree;
use saito_core::core::consensus::block::{Block, BlockType, BLOCK_HEADER_SIZE};
use saito_core::core::consensus::golden_ticket::GoldenTicket;
use saito_core::core::consensus::hop::Hop;
use saito_core::core::consensus::peers::peer_service::PeerService;
use saito_core::core::consensus::slip::Slip;
use saito_core::core::consensus::transaction::Transaction;
use saito_core::core::consensus::wallet::Wallet;
use saito_core::core::msg::block_request::BlockchainRequest;
use saito_core::core::msg::handshake::{HandshakeChallenge, HandshakeResponse};
use saito_core::core::msg::message::Message;
use saito_core::core::process::version::Version;
use saito_core::core::util::balance_snapshot::BalanceSnapshot;
use saito_core::core::util::serialize::Serialize as SaitoSerialize;
use serde_json::json;

use crate::alloc::measure;
use crate::ctx::{catch, digest, runner, Ctx, Outcome};
use crate::gen::*;
use crate::props::c09::{arb_msg, to_message};

#[derive(Debug, Clone, Copy, PartialEq, Eq, PartialOrd, Ord, Hash, serde::Serialize, serde::Deserialize)]
pub enum Dec {
    Slip,
    Hop,
    Transaction,
    Block,
    Message,
    HandshakeChallenge,
    HandshakeResponse,
    BlockchainRequest,
    Services,
    Version,
    GoldenTicket,
    WalletDisk,
    BalanceSnapshot,
}
pub const ALL: [Dec; 13] = [
    Dec::Slip,
    Dec::Hop,
    Dec::Transaction,
    Dec::Block,
    Dec::Message,
    Dec::HandshakeChallenge,
    Dec::HandshakeResponse,
    Dec::BlockchainRequest,
    Dec::Services,
    Dec::Version,
    Dec::GoldenTicket,
    Dec::WalletDisk,
    Dec::BalanceSnapshot,
];

/// Calls the decoder; returns Ok(true) for a decoded value, Ok(false) for a clean error.
pub fn decode(d: Dec, bytes: &[u8]) -> bool {
    match d {
        Dec::Slip => Slip::deserialize_from_net(&bytes.to_vec()).is_ok(),
        Dec::Hop => Hop::deserialize_from_net(&bytes.to_vec()).is_ok(),
        Dec::Transaction => Transaction::deserialize_from_net(bytes).is_ok(),
        Dec::Block => Block::deserialize_from_net(bytes).is_ok(),
        Dec::Message => Message::deserialize(bytes.to_vec()).is_ok(),
        Dec::HandshakeChallenge => HandshakeChallenge::deserialize(&bytes.to_vec()).is_ok(),
        Dec::HandshakeResponse => HandshakeResponse::deserialize(&bytes.to_vec()).is_ok(),
        Dec::BlockchainRequest => BlockchainRequest::deserialize(&bytes.to_vec()).is_ok(),
        Dec::Services => PeerService::deserialize_services(bytes.to_vec()).is_ok(),
        Dec::Version => Version::deserialize(&bytes.to_vec()).is_ok(),
        Dec::GoldenTicket => {
            // The golden-ticket payload reaches the node only as the data field of a
            // GoldenTicket-typed transaction that went through the transaction decoder.
            match Transaction::deserialize_from_net(bytes) {
                Ok(tx) => {
                    if tx.transaction_type == saito_core::core::consensus::transaction::TransactionType::GoldenTicket {
                        let gt = GoldenTicket::deserialize_from_net(&tx.data);
                        let _ = gt.validate(0);
                    }
                    true
                }
                Err(_) => false,
            }
        }
        Dec::WalletDisk => {
            let mut w = Wallet::new([0; 32], [0; 33]);
            w.deserialize_from_disk(bytes);
            true
        }
        Dec::BalanceSnapshot => match String::from_utf8(bytes.to_vec()) {
            Ok(s) => BalanceSnapshot::try_from(s).is_ok(),
            Err(_) => false,
        },
    }
}

pub struct Probe {
    pub ok: bool,
    pub panic: Option<(String, String)>,
    pub peak: usize,
}

pub fn probe(d: Dec, bytes: &[u8]) -> Probe {
    let (out, peak) = measure(|| catch(|| decode(d, bytes)));
    match out {
        Outcome::Returned(ok) => Probe { ok, panic: None, peak },
        Outcome::Panicked(site, msg) => Probe {
            ok: false,
            panic: Some((site, msg)),
            peak,
        },
    }
}

pub fn alloc_bound(len: usize) -> usize {
    64 * len + 64 * 1024
}

fn sub_decoder(d: Dec, bytes: &[u8]) -> String {
    if d == Dec::Message {
        format!("Message.{}", crate::props::c09::msg_tag_name(bytes.first().copied().unwrap_or(0)))
    } else {
        format!("{:?}", d)
    }
}

// ---------------------------------------------------------------------------
// Crash guard: inputs that kill the process (an allocation of terabytes aborts, it does not panic)
// ---------------------------------------------------------------------------
// The whole input enumeration is first replayed in a forked child that only calls the decoders and
// publishes the index of the call it is about to make in shared memory. If the child dies by a
// signal, that index names the fatal input; it is added to a skip set and the screening restarts.
// The real run then reports every fatal index as a violation instead of decoding it.
use std::sync::atomic::{AtomicBool, AtomicU64, Ordering};
static CALL_IDX: AtomicU64 = AtomicU64::new(0);
static SCREENING: AtomicBool = AtomicBool::new(false);
static SHARED: AtomicU64 = AtomicU64::new(0); // address of the shared counter (0 = none)
static FATAL: std::sync::Mutex<Vec<(u64, i32)>> = std::sync::Mutex::new(Vec::new());

/// Runs `f` in a forked child. Ok(()) if the child exited normally, Err(signal) if it was killed.
pub fn survives(f: impl FnOnce()) -> Result<(), i32> {
    unsafe {
        let pid = libc::fork();
        if pid < 0 {
            return Ok(()); // cannot fork: no screening (the in-process run decides)
        }
        if pid == 0 {
            // quiet child: its panic messages and aborts are not the check's output
            let devnull = libc::open(b"/dev/null\0".as_ptr() as *const libc::c_char, libc::O_WRONLY);
            if devnull >= 0 {
                libc::dup2(devnull, 1);
                libc::dup2(devnull, 2);
            }
            let _ = std::panic::catch_unwind(std::panic::AssertUnwindSafe(f));
            libc::_exit(0);
        }
        let mut status: libc::c_int = 0;
        loop {
            let r = libc::waitpid(pid, &mut status, 0);
            if r == pid || r < 0 {
                break;
            }
        }
        if libc::WIFSIGNALED(status) {
            Err(libc::WTERMSIG(status))
        } else {
            Ok(())
        }
    }
}

fn screen_for_fatal_inputs(ctx: &mut Ctx) {
    let shared = unsafe { libc::mmap(std::ptr::null_mut(), 8, libc::PROT_READ | libc::PROT_WRITE, libc::MAP_SHARED | libc::MAP_ANONYMOUS, -1, 0) };
    if shared == libc::MAP_FAILED {
        return;
    }
    SHARED.store(shared as u64, Ordering::SeqCst);
    for _round in 0..3 {
        unsafe { *(shared as *mut u64) = u64::MAX };
        CALL_IDX.store(0, Ordering::SeqCst);
        SCREENING.store(true, Ordering::SeqCst);
        let r = survives(|| run_inputs(ctx));
        SCREENING.store(false, Ordering::SeqCst);
        match r {
            Ok(()) => break,
            Err(sig) => {
                let idx = unsafe { *(shared as *const u64) };
                if idx == u64::MAX {
                    break; // died before the first input: not attributable
                }
                FATAL.lock().unwrap().push((idx, sig));
            }
        }
    }
    CALL_IDX.store(0, Ordering::SeqCst);
    SHARED.store(0, Ordering::SeqCst);
    unsafe { libc::munmap(shared, 8) };
    ctx.extra.insert("inputs_fatal_to_the_process".into(), json!(FATAL.lock().unwrap().len()));
}

fn check_one(ctx: &mut Ctx, d: Dec, bytes: &[u8], origin: &str) {
    let idx = CALL_IDX.fetch_add(1, Ordering::SeqCst);
    let fatal = FATAL.lock().unwrap().iter().find(|(i, _)| *i == idx).map(|(_, s)| *s);
    if SCREENING.load(Ordering::SeqCst) {
        if fatal.is_none() {
            let sh = SHARED.load(Ordering::SeqCst);
            if sh != 0 {
                unsafe { *(sh as *mut u64) = idx };
            }
            let _ = catch(|| decode(d, bytes));
        }
        return;
    }
    if let Some(sig) = fatal {
        ctx.eval();
        ctx.class("fatal_to_the_process");
        ctx.violation(
            &format!("C10|decoder={}|process_killed|signal={}", sub_decoder(d, bytes), sig),
            format!("{:?} decoder killed the process (signal {}) on a {}-byte input ({}): typically an allocation request far beyond memory", d, sig, bytes.len(), origin),
            json!({"decoder": d, "hex": hex::encode(&bytes[..bytes.len().min(4096)]), "len": bytes.len(), "origin": origin}),
        );
        return;
    }
    ctx.eval();
    let p = probe(d, bytes);
    if !p.ok && !bytes.is_empty() {
        ctx.nontrivial(&(d, digest(&bytes)));
    }
    if let Some((site, msg)) = &p.panic {
        let key = format!("C10|decoder={}|site={}", sub_decoder(d, bytes), site);
        ctx.class("panicked");
        let hexs = hex::encode(&bytes[..bytes.len().min(4096)]);
        ctx.violation(
            &key,
            format!("{:?} decoder panicked at {} on a {}-byte input ({}): {}", d, site, bytes.len(), origin, msg),
            json!({"decoder": d, "hex": hexs, "len": bytes.len(), "origin": origin}),
        );
    }
    if p.peak > alloc_bound(bytes.len()) {
        let key = format!("C10|decoder={}|alloc", sub_decoder(d, bytes));
        ctx.violation(
            &key,
            format!("{:?} decoder allocated {} bytes for a {}-byte input ({})", d, p.peak, bytes.len(), origin),
            json!({"decoder": d, "hex": hex::encode(&bytes[..bytes.len().min(4096)]), "len": bytes.len(), "origin": origin}),
        );
    }
    if p.ok {
        ctx.class("decoded_ok");
    } else if p.panic.is_none() {
        ctx.class("clean_error");
    }
}

fn sample_values<S: Strategy>(seed: u64, n: usize, s: S) -> Vec<S::Value> {
    let mut r = runner(seed, 1);
    (0..n).filter_map(|_| s.new_tree(&mut r).ok().map(|t| t.current())).collect()
}

/// Valid encodings per decoder (the seeds of truncation / corruption / mutation).
pub fn seeds(seed: u64, per: usize) -> Vec<(Dec, Vec<u8>)> {
    let mut v: Vec<(Dec, Vec<u8>)> = vec![];
    for g in sample_values(seed, per, arb_slip()) {
        v.push((Dec::Slip, g.to_slip().serialize_for_net()));
    }
    for g in sample_values(seed + 1, per, arb_hop()) {
        v.push((Dec::Hop, g.to_hop().serialize_for_net()));
    }
    for g in sample_values(seed + 2, per * 2, arb_small_tx()) {
        v.push((Dec::Transaction, g.to_tx().serialize_for_net()));
    }
    for g in sample_values(seed + 3, per, arb_tx()) {
        let e = g.to_tx().serialize_for_net();
        if e.len() <= 6000 {
            v.push((Dec::Transaction, e));
        }
    }
    for g in sample_values(seed + 4, per * 2, arb_block()) {
        let b = g.to_block();
        v.push((Dec::Block, b.serialize_for_net(BlockType::Full)));
        v.push((Dec::Block, b.serialize_for_net(BlockType::Header)));
    }
    for g in sample_values(seed + 5, per * 8, arb_msg()) {
        let e = to_message(&g).serialize();
        if e.len() <= 6000 {
            let tag = e[0];
            v.push((Dec::Message, e.clone()));
            match tag {
                1 => v.push((Dec::HandshakeChallenge, e[1..].to_vec())),
                2 => v.push((Dec::HandshakeResponse, e[1..].to_vec())),
                5 => v.push((Dec::BlockchainRequest, e[1..].to_vec())),
                9 => v.push((Dec::Services, e[1..].to_vec())),
                _ => {}
            }
        }
    }
    for i in 0..per.min(4) {
        v.push((Dec::Version, vec![i as u8, 2, 3, 4]));
        let mut gt = vec![0u8; 97];
        for (j, b) in gt.iter_mut().enumerate() {
            *b = (j as u8).wrapping_mul(7).wrapping_add(i as u8);
        }
        let mut gtx = Transaction::default();
        gtx.transaction_type = saito_core::core::consensus::transaction::TransactionType::GoldenTicket;
        gtx.data = gt;
        gtx.from.push(Slip::default());
        gtx.to.push(Slip::default());
        v.push((Dec::GoldenTicket, gtx.serialize_for_net()));
        let k = crate::world::key(i as u8);
        v.push((Dec::WalletDisk, Wallet::new(k.1, k.0).serialize_for_disk()));
        let snap = BalanceSnapshot {
            latest_block_id: 10 + i as u64,
            latest_block_hash: [i as u8 + 1; 32],
            timestamp: 12345,
            slips: sample_values(seed + 9 + i as u64, 3, arb_slip()).iter().map(|s| s.to_slip()).collect(),
        };
        v.push((Dec::BalanceSnapshot, snap.to_string().into_bytes()));
    }
    v
}

const U32_BOUNDARY: [u32; 9] = [0, 1, 2, 255, 256, 65536, 1 << 31, u32::MAX, 0x00ff_ffff];

pub fn run(ctx: &mut Ctx) {
    ctx.rule = "for every decoder fed by peers or disk: (1) all truncations of valid encodings from the C09 generators, (2) every u32-aligned-or-not 4-byte window in the first 200 bytes and at every embedded transaction header overwritten with boundary values {0,1,2,255,256,2^16,2^24-1,2^31,2^32-1} and real+-1, every byte in the first 100 bytes set to all 256 values, (2b) every 32/33/64-byte window in the first 160 bytes filled with all-zero, all-0xff and the secp256k1 group order n, n-1, n+1 (values a curve library refuses), and whole buffers of one byte value at record lengths, (3) random strings and random mutations (flip, splice, duplicate, truncate+extend) of valid encodings; oracle: outcome is Ok or Err (a panic is a violation keyed by decoder and panic site) and peak allocation <= 64*len + 64 KiB (counting global allocator). non-trivial = input is rejected (not a valid encoding) and >= 1 byte; distinct by (decoder, bytes) digest".into();
    ctx.assumptions.push("Allocation is measured with a process-wide counting allocator; checks run single-threaded.".into());
    ctx.assumptions.push("Allocation requests of a gigabyte or more are served by the harness allocator from an unreserved mapping, so that a terabyte request caused by a hostile length field is measured instead of aborting the process; as a second net the whole enumeration is replayed once in a forked child that only calls the decoders, and an input that kills that child is reported as a violation and not decoded in the main process.".into());
    // a second net behind the allocator's handling of giant requests: one screening pass in a child
    screen_for_fatal_inputs(ctx);
    run_inputs(ctx);
    ctx.sample_cap = 20;
    if ctx.tier == crate::ctx::Tier::Thorough {
        let seeds = seeds(ctx.seed, ctx.tier.pick(6usize, 40));
        fuzz_campaign(ctx, &seeds);
    }
}

fn run_inputs(ctx: &mut Ctx) {
    let per = ctx.tier.pick(6usize, 40);
    let seeds = seeds(ctx.seed, per);
    ctx.extra.insert("seed_encodings".into(), json!(seeds.len()));
    let mut sampled = std::collections::BTreeSet::new();

    // (1) all truncations, (2) boundary overwrites
    for (d, enc) in &seeds {
        // the valid encoding itself must decode (guards against a vacuous decoder)
        let p = probe(*d, enc);
        ctx.eval();
        if !p.ok && p.panic.is_none() && !matches!(d, Dec::Services | Dec::Message) {
            // Message.Services with odd strings may legitimately fail; everything else must decode
            ctx.class("seed_not_decodable");
        }
        if enc.len() <= 4096 {
            for cut in 0..enc.len() {
                check_one(ctx, *d, &enc[..cut], "truncation");
            }
            // one and several bytes appended
            let mut ext = enc.clone();
            ext.push(0);
            check_one(ctx, *d, &ext, "extended+1");
            ext.extend_from_slice(&[0xff; 40]);
            check_one(ctx, *d, &ext, "extended+41");
        }
        let mut offs: Vec<usize> = (0..enc.len().min(200)).collect();
        if *d == Dec::Block && enc.len() > BLOCK_HEADER_SIZE {
            offs.extend(BLOCK_HEADER_SIZE..(BLOCK_HEADER_SIZE + 100).min(enc.len()));
        }
        if *d == Dec::Message && enc.len() > BLOCK_HEADER_SIZE + 1 && enc[0] == 3 {
            offs.extend(BLOCK_HEADER_SIZE + 1..(BLOCK_HEADER_SIZE + 101).min(enc.len()));
        }
        for &o in &offs {
            if o + 4 <= enc.len() {
                let real = u32::from_be_bytes(enc[o..o + 4].try_into().unwrap());
                let mut vals = U32_BOUNDARY.to_vec();
                vals.push(real.wrapping_add(1));
                vals.push(real.wrapping_sub(1));
                for val in vals {
                    let mut m = enc.clone();
                    m[o..o + 4].copy_from_slice(&val.to_be_bytes());
                    check_one(ctx, *d, &m, "u32_overwrite");
                }
            }
        }
        let byte_span = ctx.tier.pick(100usize, 200);
        for o in 0..enc.len().min(byte_span) {
            for val in 0..=255u8 {
                if enc[o] == val {
                    continue;
                }
                let mut m = enc.clone();
                m[o] = val;
                check_one(ctx, *d, &m, "byte_overwrite");
            }
        }
        if sampled.insert(*d) {
            ctx.samples.push(json!({"decoder": d, "valid_encoding_len": enc.len(), "valid_prefix_hex": hex::encode(&enc[..enc.len().min(48)]), "derived": "all truncations, u32/byte overwrites, mutations"}));
        }
    }

    // (2b) windows the size of a key, hash or signature (32, 33, 64 bytes) filled with the values a
    // curve library refuses: all zero, all 0xff, the group order of secp256k1 and its neighbours; and whole
    // buffers of one byte value at the lengths of records (what a crash during a save leaves on disk)
    const ORDER: [u8; 32] = [
        0xff, 0xff, 0xff, 0xff, 0xff, 0xff, 0xff, 0xff, 0xff, 0xff, 0xff, 0xff, 0xff, 0xff, 0xff, 0xfe, 0xba, 0xae, 0xdc, 0xe6, 0xaf, 0x48, 0xa0, 0x3b, 0xbf, 0xd2, 0x5e, 0x8c, 0xd0, 0x36,
        0x41, 0x41,
    ];
    let fill = |w: usize, kind: u8| -> Vec<u8> {
        match kind {
            0 => vec![0u8; w],
            1 => vec![0xffu8; w],
            k => {
                let mut o = ORDER;
                if k == 3 {
                    o[31] = 0x40;
                }
                if k == 4 {
                    o[31] = 0x42;
                }
                let mut v = Vec::with_capacity(w);
                if w == 33 {
                    v.push(2);
                }
                while v.len() < w {
                    let take = (w - v.len()).min(32);
                    v.extend_from_slice(&o[..take]);
                }
                v
            }
        }
    };
    for (d, enc) in &seeds {
        for o in 0..enc.len().min(ctx.tier.pick(160usize, 400)) {
            for w in [32usize, 33, 64] {
                if o + w > enc.len() {
                    continue;
                }
                for kind in 0..5u8 {
                    let mut m = enc.clone();
                    m[o..o + w].copy_from_slice(&fill(w, kind));
                    check_one(ctx, *d, &m, "crypto_field_fill");
                }
            }
        }
    }
    for d in ALL {
        for len in [1usize, 4, 8, 32, 33, 64, 65, 66, 97, 98, 130, 213, 214, 300, 4096] {
            for val in [0u8, 0xff, 0x01, 0x80] {
                check_one(ctx, d, &vec![val; len], "uniform_buffer");
            }
        }
    }

    // (3) random strings and random mutations
    let n_rand = ctx.tier.pick(4000u32, 200_000);
    let mut r = runner(ctx.seed ^ 0xC10, 1);
    let strat = (0usize..13, proptest::collection::vec(any::<u8>(), 0..600));
    for _ in 0..n_rand {
        let (di, bytes) = strat.new_tree(&mut r).unwrap().current();
        check_one(ctx, ALL[di], &bytes, "random");
    }
    let mstrat = (any::<u32>(), proptest::collection::vec((any::<u32>(), any::<u8>(), 0u8..5), 1..6));
    for _ in 0..n_rand {
        let (si, edits) = mstrat.new_tree(&mut r).unwrap().current();
        let (d, enc) = &seeds[si as usize % seeds.len()];
        let mut m = enc.clone();
        for (pos, val, kind) in edits {
            if m.is_empty() {
                m.push(val);
                continue;
            }
            let p = pos as usize % m.len();
            match kind {
                0 => m[p] = val,
                1 => m[p] ^= 1 << (val % 8),
                2 => {
                    m.truncate(p);
                }
                3 => {
                    let seg: Vec<u8> = m[p..(p + val as usize).min(m.len())].to_vec();
                    m.splice(p..p, seg);
                }
                _ => {
                    m.insert(p, val);
                }
            }
        }
        check_one(ctx, *d, &m, "mutation");
    }
}

fn selector(d: Dec) -> Option<u8> {
    Some(match d {
        Dec::Slip => 0,
        Dec::Hop => 1,
        Dec::Transaction | Dec::GoldenTicket => 2,
        Dec::Block => 3,
        Dec::Message => 4,
        Dec::HandshakeChallenge => 5,
        Dec::HandshakeResponse => 6,
        Dec::BlockchainRequest => 7,
        Dec::Services => 8,
        Dec::Version => 9,
        Dec::WalletDisk => 10,
        Dec::BalanceSnapshot => 11,
    })
}
fn dec_of_selector(s: u8) -> Dec {
    match s % 12 {
        0 => Dec::Slip,
        1 => Dec::Hop,
        2 => Dec::Transaction,
        3 => Dec::Block,
        4 => Dec::Message,
        5 => Dec::HandshakeChallenge,
        6 => Dec::HandshakeResponse,
        7 => Dec::BlockchainRequest,
        8 => Dec::Services,
        9 => Dec::Version,
        10 => Dec::WalletDisk,
        _ => Dec::BalanceSnapshot,
    }
}

/// Writes the valid encodings as a libFuzzer corpus (first byte = decoder selector).
pub fn write_corpus(dir: &str, seed: u64, per: usize) -> usize {
    let _ = std::fs::create_dir_all(dir);
    let mut n = 0;
    for (i, (d, enc)) in seeds(seed, per).iter().enumerate() {
        if let Some(s) = selector(*d) {
            let mut b = vec![s];
            b.extend_from_slice(enc);
            if std::fs::write(format!("{dir}/seed_{i:04}"), b).is_ok() {
                n += 1;
            }
        }
    }
    n
}

/// Thorough tier: coverage-guided campaigns (cargo-fuzz / libFuzzer with ASan) over the same
/// decoders, once from the valid-encoding corpus and once from an empty corpus. Fixed -runs and
/// -seed; a crash artifact becomes a violation whose replay is the input itself.
fn fuzz_campaign(ctx: &mut Ctx, _seeds: &[(Dec, Vec<u8>)]) {
    let fuzz_dir = format!("{}/fuzz", crate::ctx::verif_dir());
    let work = format!("{fuzz_dir}/work");
    let _ = std::fs::remove_dir_all(&work);
    let _ = std::fs::remove_dir_all(format!("{fuzz_dir}/artifacts"));
    let runs = std::env::var("VERIF_FUZZ_RUNS").ok().and_then(|s| s.parse::<u64>().ok()).unwrap_or(3_000_000);
    let mut report = vec![];
    for (name, seeded) in [("seeded_corpus", true), ("empty_corpus", false)] {
        let corpus = format!("{work}/{name}");
        let _ = std::fs::create_dir_all(&corpus);
        let written = if seeded { write_corpus(&corpus, ctx.seed, 30) } else { 0 };
        let out = std::process::Command::new("cargo")
            // -O: optimised build WITHOUT debug assertions / overflow checks, i.e. production arithmetic
            // (cargo-fuzz's default build would turn wrapping sums inside Block::generate into panics)
            .args(["+nightly", "fuzz", "run", "-O", "--fuzz-dir", &fuzz_dir, "decoders", &corpus, "--"])
            .arg(format!("-runs={runs}"))
            .arg(format!("-seed={}", ctx.seed.max(1)))
            .args(["-max_len=6000", "-len_control=0", "-rss_limit_mb=3000", "-malloc_limit_mb=512", "-timeout=20", "-print_final_stats=1"])
            .env("CARGO_NET_OFFLINE", "true")
            // the harness' own target directory (set by run_check.sh) must not be shared with the sanitizer build
            .env_remove("CARGO_TARGET_DIR")
            .output();
        match out {
            Ok(o) => {
                let err = String::from_utf8_lossy(&o.stderr);
                let execs = err.lines().find(|l| l.contains("stat::number_of_executed_units")).and_then(|l| l.split_whitespace().last()).and_then(|x| x.parse::<u64>().ok()).unwrap_or(0);
                let cov = err.lines().rev().find(|l| l.contains("cov:")).map(|l| l.trim().chars().take(120).collect::<String>()).unwrap_or_default();
                ctx.evals(execs);
                report.push(json!({"campaign": name, "corpus_files": written, "runs_requested": runs, "executed": execs, "exit_ok": o.status.success(), "last_status_line": cov}));
                if !o.status.success() && execs == 0 && !err.contains("SUMMARY") {
                    ctx.extra.insert(format!("fuzz_infra_problem_{name}"), json!(err.lines().rev().take(5).collect::<Vec<_>>()));
                }
            }
            Err(e) => {
                ctx.extra.insert(format!("fuzz_infra_problem_{name}"), json!(e.to_string()));
            }
        }
        // artifacts = crashing inputs
        if let Ok(rd) = std::fs::read_dir(format!("{fuzz_dir}/artifacts/decoders")) {
            for f in rd.filter_map(|e| e.ok()) {
                if let Ok(bytes) = std::fs::read(f.path()) {
                    if bytes.is_empty() {
                        continue;
                    }
                    let d = dec_of_selector(bytes[0]);
                    let body = &bytes[1..];
                    let before = ctx.violations.len() + ctx.known_hits.len();
                    check_one(ctx, d, body, "libfuzzer_artifact");
                    if ctx.violations.len() + ctx.known_hits.len() == before {
                        // the in-target oracle (round trip / sanitizer) fired, not a decoder panic
                        ctx.violation(
                            &format!("C10|fuzz_target_oracle|decoder={:?}", d),
                            format!("libFuzzer found an input on which the in-target oracle fails for {:?} ({} bytes): {}", d, body.len(), f.path().display()),
                            json!({"decoder": d, "hex": hex::encode(body), "len": body.len(), "origin": "libfuzzer_artifact"}),
                        );
                    }
                }
            }
        }
        let _ = std::fs::remove_dir_all(format!("{fuzz_dir}/artifacts"));
    }
    let _ = std::fs::remove_dir_all(&work);
    ctx.extra.insert("libfuzzer_campaigns".into(), json!(report));
}

/// Replays a saved input: {"decoder": "...", "hex": "..."}.
pub fn replay(ctx: &mut Ctx, v: &serde_json::Value) -> bool {
    let d: Dec = match serde_json::from_value(v.get("decoder").cloned().unwrap_or_default()) {
        Ok(d) => d,
        Err(_) => return false,
    };
    let bytes = match v.get("hex").and_then(|h| h.as_str()).and_then(|h| hex::decode(h).ok()) {
        Some(b) => b,
        None => return false,
    };
    if let Err(sig) = survives(|| {
        let _ = catch(|| decode(d, &bytes));
    }) {
        ctx.eval();
        ctx.violation(
            &format!("C10|decoder={}|process_killed|signal={}", sub_decoder(d, &bytes), sig),
            format!("{:?} decoder killed the process (signal {}) on a {}-byte input (replay)", d, sig, bytes.len()),
            json!({"decoder": d, "hex": hex::encode(&bytes[..bytes.len().min(4096)]), "len": bytes.len(), "origin": "replay"}),
        );
        return true;
    }
    check_one(ctx, d, &bytes, "replay");
    true
}
