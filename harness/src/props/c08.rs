//! C08 — routing work gates block production; payouts go only to eligible parties.

use std::collections::BTreeSet;

use proptest::prelude::*;
use proptest::strategy::ValueTree;
use saito_core::core::consensus::block::Block;
use saito_core::core::consensus::burnfee::BurnFee;
use saito_core::core::consensus::golden_ticket::GoldenTicket;
use saito_core::core::consensus::transaction::{Transaction, TransactionType};
use saito_core::core::defs::*;
use serde::{Deserialize, Serialize};
use serde_json::json;

use crate::chain::*;
use crate::ctx::{block_on, digest, pbt_run, runner, Ctx};
use crate::deliver::*;
use crate::observe::BlockTable;
use crate::props::c01::density_needs_gt;
use crate::world::*;

// ---------------------------------------------------------------------------
// (a) the work function
// ---------------------------------------------------------------------------

fn work_needed(bf: u64, t: u64, t0: u64, hb: u64) -> u64 {
    BurnFee::return_routing_work_needed_to_produce_block_in_nolan(bf, t, t0, hb)
}

fn check_work_function(ctx: &mut Ctx) {
    let n = ctx.tier.pick(100_000u32, 2_000_000);
    let mut r = runner(ctx.seed ^ 0xC08A, 1);
    let big = prop_oneof![
        3 => any::<u64>(),
        3 => 0u64..10_000_000_000,
        1 => Just(0u64),
        1 => Just(u64::MAX),
        1 => Just(50_000_000u64),
        1 => (0u32..64).prop_map(|s| 1u64 << s),
    ];
    let strat = (
        big.clone(),
        prop_oneof![3 => 0u64..2_000_000_000_000, 1 => any::<u64>()],
        prop_oneof![3 => 1u64..100_000, 2 => 1u64..1000, 1 => any::<u64>()],
        prop_oneof![3 => 1u64..100_000, 1 => 1u64..10],
        prop_oneof![Just(100u64), Just(5000u64), 1u64..100_000],
    );
    let mut sampled = 0;
    for _ in 0..n {
        let (bf, t0, d1, d2, hb) = strat.new_tree(&mut r).unwrap().current();
        let t1 = match t0.checked_add(d1) {
            Some(t) => t,
            None => continue,
        };
        let t2 = match t1.checked_add(d2) {
            Some(t) => t,
            None => continue,
        };
        ctx.eval();
        let (w1, w2) = (work_needed(bf, t1, t0, hb), work_needed(bf, t2, t0, hb));
        if bf > 0 && d1 < 2 * hb {
            ctx.nontrivial(&(bf, d1, d2, hb));
        }
        if sampled < 2 && bf > 1000 && d1 < 2 * hb {
            sampled += 1;
            ctx.samples.push(json!({"sub":"work_function","burnfee":bf,"t0":t0,"dt1":d1,"dt2":d1+d2,"heartbeat":hb,"needed1":w1,"needed2":w2}));
        }
        // the requirement is "set by the parent's burn fee and the elapsed time": inside the two
        // heartbeats it is the burn fee (the curve's y-axis value) divided by the elapsed
        // milliseconds, to the nolan (exact rational in u128; tolerance: rounding plus f64 precision)
        if let Some(two) = hb.checked_mul(2) {
            if d1 < two {
                let exact = bf as u128 / d1 as u128;
                let tol = 1 + (exact >> 40);
                let got = w1 as u128;
                if got + tol < exact || got > exact + tol + 1 {
                    ctx.violation(
                        "C08|work_needed_off_the_curve",
                        format!("needed({bf}, dt={d1}) = {w1} but burn fee / elapsed time = {exact} (heartbeat {hb})"),
                        json!({"sub":"work_function","burnfee":bf,"t0":t0,"d1":d1,"d2":d2,"hb":hb}),
                    );
                }
            }
        }
        if w2 > w1 {
            ctx.violation(
                "C08|work_needed_increases_with_time",
                format!("needed({bf}, dt={}) = {w1} < needed(dt={}) = {w2} (heartbeat {hb})", d1, d1 + d2),
                json!({"sub":"work_function","burnfee":bf,"t0":t0,"d1":d1,"d2":d2,"hb":hb}),
            );
        }
        if let Some(two) = hb.checked_mul(2) {
            if d1 >= two && w1 != 0 {
                ctx.violation(
                    "C08|work_needed_nonzero_after_two_heartbeats",
                    format!("needed({bf}, dt={d1}) = {w1} although dt >= 2*heartbeat ({hb})"),
                    json!({"sub":"work_function","burnfee":bf,"t0":t0,"d1":d1,"d2":d2,"hb":hb}),
                );
            }
            if d1 + d2 >= two && w2 != 0 {
                ctx.violation(
                    "C08|work_needed_nonzero_after_two_heartbeats",
                    format!("needed({bf}, dt={}) = {w2} although dt >= 2*heartbeat ({hb})", d1 + d2),
                    json!({"sub":"work_function","burnfee":bf,"t0":t0,"d1":d1,"d2":d2,"hb":hb}),
                );
            }
        }
    }
}

// ---------------------------------------------------------------------------
// (b) the gate
// ---------------------------------------------------------------------------

#[derive(Debug, Clone, Copy, Serialize, Deserialize, PartialEq, Eq, Hash)]
pub enum PathKind {
    None,
    Valid,
    NotEndingAtCreator,
    BadHopSignature,
    Gap,
}

#[derive(Debug, Clone, Serialize, Deserialize, PartialEq, Eq, Hash)]
pub struct WorkTx {
    pub payer: u8,
    pub fee: u64,
    pub hops: u8, // number of hops for Valid / NotEndingAtCreator / broken variants (1..5)
    pub kind: PathKind,
    /// which hop carries the bad signature / after which hop the path is broken
    #[serde(default)]
    pub pos: u8,
}

#[derive(Debug, Clone, Serialize, Deserialize, PartialEq, Eq, Hash)]
pub struct GateCase {
    pub prefix: HistSpec,
    pub creator: u8,
    pub txs: Vec<WorkTx>,
    /// -1: one ms before the work suffices, 0: first ms at which it suffices, +k: later
    pub dt_offset: i32,
    /// > 0: the candidate is also delivered to a node that joined in the middle of the chain (it was
    /// given the longest chain only from this block index on, so it never saw block 1)
    #[serde(default)]
    pub late_from: u8,
}

/// Oracle: routing work a transaction delivers to `creator` (statement: fee-weighted, halved per
/// extra hop, zero unless the path ends at the creator).
fn oracle_work(fee: u64, hops: usize, ends_at_creator: bool) -> u64 {
    if hops == 0 || !ends_at_creator {
        return 0;
    }
    let mut w = fee;
    for _ in 1..hops {
        w -= w / 2;
    }
    w
}

fn router_ring(payer: u8, creator: u8, hops: usize) -> Vec<u8> {
    // payer -> r1 -> r2 ... -> creator with distinct consecutive keys drawn from 4..8
    let mut path = vec![payer];
    for i in 0..hops.saturating_sub(1) {
        path.push(4 + (i as u8 % 4));
    }
    path.push(creator);
    path
}

pub fn run_gate_case(case: &GateCase) -> (Vec<(String, String)>, bool, &'static str) {
    let mut v = vec![];
    let built = block_on(build_history(&case.prefix));
    let main = built.main_chain_blocks();
    let mut node = Node::new(case.prefix.ncfg, 6);
    for b in &main {
        if !guarded_add(&mut node, b.clone(), 1000).0.accepted() {
            return (v, false, "prefix");
        }
    }
    let mut late: Option<Node> = None;
    if case.late_from > 0 && main.len() >= 2 {
        let from = 1 + (case.late_from as usize - 1) % (main.len() - 1);
        let mut l = Node::new(case.prefix.ncfg, 7);
        let mut ok = true;
        for b in &main[from..] {
            ok &= guarded_add(&mut l, b.clone(), 1000).0.accepted();
        }
        if ok && l.tip() == node.tip() {
            late = Some(l);
        }
    }
    let (tip_id, tip_hash) = node.tip();
    let tipb = node.chain.get_latest_block().unwrap().clone();
    let creator = key(case.creator);
    let hb = case.prefix.ncfg.heartbeat;
    // build transactions
    let mut reserved: BTreeSet<SaitoUTXOSetKey> = BTreeSet::new();
    let mut txs: Vec<Transaction> = vec![];
    let mut total_work: u128 = 0;
    let mut any_invalid = false;
    let mut multi_hop_fee = false;
    for (n, w) in case.txs.iter().enumerate() {
        if w.payer == case.creator && w.kind != PathKind::None {
            continue; // a hop from the creator to itself is not constructible
        }
        let plan = TxPlan {
            payer: w.payer,
            payee: (w.payer + 1) % 4,
            amount: 100,
            fee: w.fee,
            max_inputs: 2,
            ts: tipb.timestamp + 10 + n as u64,
        };
        let mut tx = match build_honest_tx(&node, &plan, tip_id + 1, &mut reserved) {
            Some(t) => t,
            None => continue,
        };
        let hops = w.hops.clamp(1, 5) as usize;
        match w.kind {
            PathKind::None => {}
            PathKind::Valid => {
                add_path(&mut tx, &router_ring(w.payer, case.creator, hops));
                total_work += oracle_work(w.fee, hops, true) as u128;
                if hops >= 2 && w.fee > 0 {
                    multi_hop_fee = true;
                }
            }
            PathKind::NotEndingAtCreator => {
                let other = (0u8..4).find(|k| *k != case.creator && *k != w.payer).unwrap();
                add_path(&mut tx, &router_ring(w.payer, other, hops));
            }
            PathKind::BadHopSignature => {
                add_path(&mut tx, &router_ring(w.payer, case.creator, hops));
                let l = tx.path.len();
                // recorded cases (pos == 0) keep corrupting the last hop
                let at = if w.pos == 0 { l - 1 } else { w.pos as usize % l };
                tx.path[at].sig[7] ^= 0x40;
                any_invalid = true;
            }
            PathKind::Gap => {
                // a path of >= 2 individually valid hops ending at the creator that is broken after
                // hop j: the next hop is signed by (and starts at) a key that never received it
                let hops = hops.max(2);
                let nodes = router_ring(w.payer, case.creator, hops);
                let j = w.pos as usize % (hops - 1);
                for i in 0..hops {
                    let from = if i == j + 1 {
                        // a stranger different from both neighbours
                        (8u8..12).map(key).find(|k| k.0 != key(nodes[i]).0 && k.0 != key(nodes[i + 1]).0).unwrap()
                    } else {
                        key(nodes[i])
                    };
                    let to = key(nodes[i + 1]);
                    if from.0 == to.0 {
                        continue;
                    }
                    tx.add_hop(&from.1, &from.0, &to.0);
                }
                any_invalid = true;
            }
        }
        tx.generate(&creator.0, 0, 0);
        txs.push(tx);
    }
    if txs.is_empty() {
        return (v, false, "no_txs");
    }
    let work = total_work.min(u64::MAX as u128) as u64;
    // smallest dt at which the requirement is met
    let mut lo = 1u64;
    let mut hi = 2 * hb;
    while lo < hi {
        let mid = (lo + hi) / 2;
        if work_needed(tipb.burnfee, tipb.timestamp + mid, tipb.timestamp, hb) <= work {
            hi = mid;
        } else {
            lo = mid + 1;
        }
    }
    let dt_ok = lo;
    let dt = (dt_ok as i64 + case.dt_offset as i64).max(1) as u64;
    let ts = tipb.timestamp + dt;
    let needed = work_needed(tipb.burnfee, ts, tipb.timestamp, hb);
    let gt = if density_needs_gt(&node) { block_on(node.mine_gt(tip_hash, &creator, 77)) } else { None };
    let blk = match block_on(node.make_block_as(&creator, tip_hash, ts, txs, gt)) {
        Ok(b) => b,
        Err(_) => return (v, false, "create_refused"),
    };
    let expect_accept = !any_invalid && work >= needed;
    if blk.total_work != work && !any_invalid {
        v.push((
            "C08|work_accounting_differs".into(),
            format!("block reports total_work {} but the statement's rule gives {} (fees halved per extra hop, zero unless ending at the creator)", blk.total_work, work),
        ));
    }
    if let Some(l) = late.as_mut() {
        // the node that joined mid-chain has to reach the same verdict on the routing work
        let (out, _) = guarded_add(l, blk.clone(), 64);
        let accepted = matches!(out, StepOutcome::Result("added_lc"));
        if let StepOutcome::Panicked(site, msg) = &out {
            v.push((format!("C08|late_joiner|panic|site={site}"), format!("add_block of the node that joined mid-chain panicked at {site}: {msg}")));
        } else if accepted != expect_accept {
            let key = if accepted { if any_invalid { "C08|late_joiner|invalid_path_accepted" } else { "C08|late_joiner|insufficient_work_accepted" } } else { "C08|late_joiner|sufficient_work_rejected" };
            v.push((
                key.into(),
                format!("a node that joined mid-chain (never saw block 1): work {} needed {} (dt {} ms), invalid path present: {} => expected {} but block was {}", work, needed, dt, any_invalid, if expect_accept { "accepted" } else { "rejected" }, out.name()),
            ));
        }
    }
    let (out, _) = guarded_add(&mut node, blk, 64);
    let accepted = matches!(out, StepOutcome::Result("added_lc"));
    if let StepOutcome::Panicked(site, msg) = &out {
        v.push((format!("C08|panic|site={site}"), format!("add_block panicked at {site}: {msg}")));
    } else if accepted != expect_accept {
        let key = if accepted { if any_invalid { "C08|invalid_path_accepted" } else { "C08|insufficient_work_accepted" } } else { "C08|sufficient_work_rejected" };
        v.push((
            key.into(),
            format!("work {} needed {} (dt {} ms, parent burn fee {}), invalid path present: {} => expected {} but block was {}", work, needed, dt, tipb.burnfee, any_invalid, if expect_accept { "accepted" } else { "rejected" }, out.name()),
        ));
    }
    let class = if any_invalid {
        "invalid_path"
    } else if work < needed {
        "just_below"
    } else if case.dt_offset == 0 && dt_ok > 1 {
        "exactly_at"
    } else {
        "above"
    };
    (v, multi_hop_fee, class)
}

pub fn arb_gate_case() -> impl Strategy<Value = GateCase> {
    (
        arb_honest_hist(8),
        0u8..3,
        proptest::collection::vec(
            (
                0u8..4,
                prop_oneof![2 => 1u64..5000, 3 => 5_000u64..5_000_000, 1 => Just(0u64)],
                1u8..6,
                prop_oneof![
                    6 => Just(PathKind::Valid),
                    2 => Just(PathKind::None),
                    2 => Just(PathKind::NotEndingAtCreator),
                    1 => Just(PathKind::BadHopSignature),
                    2 => Just(PathKind::Gap),
                ],
                any::<u8>(),
            )
                .prop_map(|(payer, fee, hops, kind, pos)| WorkTx { payer, fee, hops, kind, pos }),
            1..5,
        ),
        prop_oneof![3 => Just(-1i32), 3 => Just(0i32), 1 => 1i32..50],
        prop_oneof![1 => Just(0u8), 1 => 1u8..8],
    )
        .prop_map(|(mut prefix, creator, txs, dt_offset, late_from)| {
            prefix.ncfg.loading_completed = true;
            prefix.ncfg.gp = 100;
            prefix.ncfg.heartbeat = 5000;
            prefix.treasury = 0;
            prefix.issuance = vec![(0, 400_000_000), (1, 500_000_000), (2, 600_000_000), (3, 700_000_000), (0, 90_000_000), (1, 80_000_000), (2, 70_000_000), (3, 60_000_000)];
            // fee-less prefix blocks so that the parent burn fee is moderate
            for b in prefix.blocks.iter_mut() {
                b.dt = b.dt.max(4000);
                for t in b.txs.iter_mut() {
                    t.fee = t.fee.min(5000);
                }
            }
            GateCase {
                prefix,
                creator,
                txs,
                dt_offset,
                late_from,
            }
        })
}

// ---------------------------------------------------------------------------
// (c) payouts
// ---------------------------------------------------------------------------

fn path_keys(b: &Block, out: &mut BTreeSet<SaitoPublicKey>) {
    for t in &b.transactions {
        // a transaction that contributes nothing to the block's fees cannot win the payout lottery:
        // neither its sender nor its routers are eligible through it
        let in_sum: u128 = t.from.iter().filter(|s| s.slip_type != saito_core::core::consensus::slip::SlipType::Bound).map(|s| s.amount as u128).sum();
        let out_sum: u128 = t.to.iter().filter(|s| s.slip_type != saito_core::core::consensus::slip::SlipType::Bound).map(|s| s.amount as u128).sum();
        if in_sum <= out_sum && t.transaction_type != TransactionType::ATR {
            continue;
        }
        let inner;
        let t = if t.transaction_type == TransactionType::ATR {
            match Transaction::deserialize_from_net(&t.data) {
                Ok(i) => {
                    inner = i;
                    &inner
                }
                Err(_) => t,
            }
        } else {
            t
        };
        if t.path.is_empty() {
            // documented: the sender of a path-less fee-paying transaction is the implicit first router
            if let Some(f) = t.from.first() {
                out.insert(f.public_key);
            }
        }
        for h in &t.path {
            out.insert(h.to);
        }
    }
}

pub fn check_payouts(chain_blocks: &[Block]) -> (Vec<(String, String)>, usize, usize) {
    let mut v = vec![];
    let table = BlockTable::from_blocks(chain_blocks);
    let mut checked = 0;
    let mut router_paid = 0;
    for b in chain_blocks {
        let ft = match b.transactions.iter().find(|t| t.transaction_type == TransactionType::Fee) {
            Some(t) => t,
            None => continue,
        };
        let gt_tx = match b.transactions.iter().find(|t| t.transaction_type == TransactionType::GoldenTicket) {
            Some(t) => t,
            None => {
                v.push(("C08|fee_tx_without_golden_ticket".into(), format!("accepted block id {} has a fee transaction but no golden ticket", b.id)));
                continue;
            }
        };
        if gt_tx.data.len() != 97 {
            continue;
        }
        let solver: SaitoPublicKey = gt_tx.data[64..97].try_into().unwrap();
        let p = match table.by_hash.get(&b.previous_block_hash) {
            Some(p) => p,
            None => continue,
        };
        checked += 1;
        let mut eligible: BTreeSet<SaitoPublicKey> = BTreeSet::new();
        eligible.insert(solver);
        path_keys(p, &mut eligible);
        let mut budget: u128 = p.total_fees as u128;
        if !p.has_golden_ticket {
            if let Some(pp) = table.by_hash.get(&p.previous_block_hash) {
                path_keys(pp, &mut eligible);
                budget += pp.total_fees as u128;
            }
        }
        let mut paid: u128 = 0;
        for o in &ft.to {
            paid += o.amount as u128;
            if o.amount > 0 && !eligible.contains(&o.public_key) {
                v.push((
                    "C08|payout_to_ineligible_key".into(),
                    format!("block id {}: fee transaction pays {} to a key that is neither the golden-ticket solver nor on a routing path of the blocks being paid", b.id, o.amount),
                ));
            }
            if o.amount > 0 && o.public_key != solver {
                router_paid += 1;
            }
        }
        if paid > budget {
            v.push((
                "C08|payout_exceeds_fees_collected".into(),
                format!("block id {}: fee transaction pays out {} but the blocks being paid collected {}", b.id, paid, budget),
            ));
        }
        // the golden ticket must be a solution for the parent
        let gtk = GoldenTicket::deserialize_from_net(&gt_tx.data);
        let rebuilt = GoldenTicket::create(p.hash, gt_tx.data[32..64].try_into().unwrap(), solver);
        if !rebuilt.validate(p.difficulty) {
            v.push(("C08|accepted_golden_ticket_not_a_solution".into(), format!("block id {} was accepted with a golden ticket that does not solve its parent at difficulty {}", b.id, p.difficulty)));
        }
        let _ = gtk;
    }
    (v, checked, router_paid)
}

#[derive(Debug, Clone, Serialize, Deserialize, PartialEq, Eq, Hash)]
pub struct PayoutCase {
    pub hist: HistSpec,
}

fn run_payout_case(case: &PayoutCase) -> (Vec<(String, String)>, usize, usize, usize) {
    let built = block_on(build_history(&case.hist));
    // only blocks a node accepts on its longest chain
    let mut d = Deliverer::new(Node::new(case.hist.ncfg, 6), 10_000);
    let table = BlockTable::from_blocks(&built.blocks);
    for b in &built.blocks {
        if is_rootless(&d.node, &table, b) {
            continue; // branch whose fork point has been purged: add_block's out-of-order branch (finding F10)
        }
        d.deliver(b);
        if d.dead {
            break;
        }
    }
    let path: Vec<Block> = match table.path(&d.node.tip().1) {
        Some(p) => p.into_iter().cloned().collect(),
        None => vec![],
    };
    let multi = path
        .iter()
        .flat_map(|b| b.transactions.iter())
        .filter(|t| t.path.len() >= 2 && t.total_fees > 0)
        .count();
    let (mut v, checked, router_paid) = check_payouts(&path);
    // a lying producer: the next block on the tip (with a golden ticket, so that it pays out) is
    // offered with its fee transaction extended / shortened / redirected / inflated; every variant
    // must be refused (a refused block leaves no trace, so the variants are offered one after another)
    if v.is_empty() && !d.dead && !path.is_empty() {
        let (tip_id, tip_hash) = d.node.tip();
        let tipb = path.last().unwrap();
        let creator = key(1);
        let ts = tipb.timestamp + 2 * case.hist.ncfg.heartbeat + 5;
        if let Some(gt) = block_on(d.node.mine_gt(tip_hash, &key(2), 31_337)) {
            if let Ok(honest) = block_on(d.node.make_block_as(&creator, tip_hash, ts, vec![carrier_tx(&creator, ts)], Some(gt))) {
                if honest.has_fee_transaction {
                    for e in crate::adversary::PAYOUT_EDITS {
                        let mut lie = honest.clone();
                        if !crate::adversary::apply_block_edit(&mut lie, e, &creator, tipb.difficulty) {
                            continue;
                        }
                        let (out, _) = guarded_add(&mut d.node, lie, 256);
                        match out {
                            StepOutcome::Result("added_lc") | StepOutcome::Result("added_side") => {
                                v.push((format!("C08|payout_lie_accepted|edit={:?}", e), format!("a block on tip {} whose fee transaction was edited ({:?}) after consensus computed it was accepted", tip_id, e)));
                                break;
                            }
                            StepOutcome::Panicked(site, msg) => {
                                v.push((format!("C08|payout_lie_aborts_node|edit={:?}|site={}", e, site), format!("a block whose fee transaction was edited ({:?}) made add_block panic at {}: {}", e, site, msg)));
                                break;
                            }
                            _ => {}
                        }
                    }
                }
            }
        }
    }
    (v, checked, router_paid, multi)
}

pub fn arb_payout_case() -> impl Strategy<Value = PayoutCase> {
    (arb_forked_hist(30), prop_oneof![2 => Just(false), 1 => Just(true)]).prop_map(|(mut hist, tiny)| {
        hist.ncfg.loading_completed = true;
        if tiny {
            // fees of 0..3 nolan: the payout lottery then lands on the boundary between two
            // transactions (and on zero-fee transactions next to fee-paying ones) all the time
            hist.issuance.extend([(4u8, 3_000_000u64), (5, 2_000_000)]);
            for (i, b) in hist.blocks.iter_mut().enumerate() {
                b.gt = true;
                for t in b.txs.iter_mut() {
                    t.fee %= 4;
                }
                // a zero-fee, path-less transaction of a key that neither pays fees nor routes
                b.txs.push(TxSpec { payer: 4 + (i % 2) as u8, payee: 0, amount_sel: 100, fee: 0, routers: vec![], with_path: false, max_inputs: 1, nft: false });
            }
        }
        hist.issuance.extend([(0u8, 400_000_000u64), (1, 500_000_000), (2, 600_000_000), (3, 70_000_000)]);
        for b in hist.blocks.iter_mut() {
            for t in b.txs.iter_mut() {
                if t.routers.len() >= 1 {
                    t.with_path = true;
                }
            }
        }
        PayoutCase { hist }
    })
}

// ---------------------------------------------------------------------------

pub fn run(ctx: &mut Ctx) {
    ctx.rule = "(a) work function over the full domain (burn fee: any u64 incl. powers of two; timestamps to 2e12 and any u64; heartbeat 1..1e5): needed(t2) <= needed(t1) for t0 < t1 <= t2, needed == 0 once t - t0 >= 2*heartbeat, and inside the two heartbeats needed == burn fee / elapsed ms to the nolan (exact u128 quotient, tolerance 1 nolan + 2^-40 relative). (b) gate: blocks built with the repository's Block::create (bypassing the producer's own gate) from 1..4 fee-paying transactions with valid paths of 1..4 hops, no path, paths not ending at the creator, a bad hop signature or a gap, at the last millisecond before / the first millisecond at which / after the oracle work (fees halved per extra hop, zero unless the path ends at the creator; recomputed by the harness) meets the requirement; accepted <=> all paths valid and work >= needed; in half of the cases the candidate also goes to a second node that joined mid-chain (fed the chain from a later block on, never saw block 1, so it validates without its utxoset) and has to reach the same verdict. (c) payouts: in every block accepted on the longest chain of generated honest forked histories the fee transaction pays only the golden-ticket solver and keys on routing paths (or senders of path-less transactions) of the blocks being paid, at most what those blocks collected (u128), and the ticket solves the parent. non-trivial: (a) non-zero burn fee inside the two-heartbeat window, (b)/(c) >= 1 transaction with >= 2 hops and non-zero fee".into();
    check_work_function(ctx);
    let cases = ctx.tier.pick(500u32, 15_000);
    pbt_run(ctx, "gate", cases, arb_gate_case(), |c, case, counting| {
        let (v, multi, class) = run_gate_case(case);
        if counting {
            c.eval();
            c.class(&format!("gate_{class}"));
            if case.late_from > 0 {
                c.class("gate_also_delivered_to_mid_chain_joiner");
            }
            if multi {
                c.nontrivial(&("gate", digest(case)));
            }
            if class == "exactly_at" || class == "just_below" {
                c.sample_class(class, json!({"sub":"gate","class":class,"txs":case.txs,"dt_offset":case.dt_offset,"creator":case.creator}));
            }
        }
        v
    });
    let cases = ctx.tier.pick(250u32, 8_000);
    pbt_run(ctx, "payouts", cases, arb_payout_case(), |c, case, counting| {
        let (v, checked, router_paid, multi) = run_payout_case(case);
        if counting {
            c.evals(checked.max(1) as u64);
            if multi > 0 && checked > 0 {
                c.nontrivial(&("payout", digest(case)));
            }
            if router_paid > 0 {
                *c.classes.entry("payout_to_router".into()).or_insert(0) += router_paid as u64;
            }
            if checked > 0 {
                *c.classes.entry("fee_transactions_checked".into()).or_insert(0) += checked as u64;
            }
        }
        v
    });
}

pub fn replay(ctx: &mut Ctx, v: &serde_json::Value) -> bool {
    let case = v.get("case").cloned().unwrap_or(v.clone());
    if let Ok(c) = serde_json::from_value::<GateCase>(case.clone()) {
        for (k, w) in run_gate_case(&c).0 {
            ctx.violation(&k, w, json!({"check": "gate", "case": c}));
        }
        ctx.eval();
        return true;
    }
    if let Ok(c) = serde_json::from_value::<PayoutCase>(case) {
        for (k, w) in run_payout_case(&c).0 {
            ctx.violation(&k, w, json!({"check": "payouts", "case": c}));
        }
        ctx.eval();
        return true;
    }
    false
}
