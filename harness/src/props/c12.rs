//! C12 — restart rebuilds the same ledger; a crash at any storage step is survivable.
//! Fault enumeration over every prefix of the storage-operation journal, with the last write
//! complete, absent or torn at byte-class boundaries.

use std::collections::{BTreeMap, BTreeSet};
use std::sync::atomic::AtomicU64;
use std::sync::Arc;

use proptest::prelude::*;
use saito_core::core::consensus::block::{Block, BLOCK_HEADER_SIZE};
use saito_core::core::defs::*;
use serde::{Deserialize, Serialize};
use serde_json::json;

use crate::chain::*;
use crate::ctx::{block_on, digest, pbt_run, Ctx};
use crate::deliver::*;
use crate::net::*;
use crate::observe::BlockTable;
use crate::props::c01::density_needs_gt;
use crate::refmodel::*;
use crate::world::*;

#[derive(Debug, Clone, Serialize, Deserialize, PartialEq, Eq, Hash)]
pub struct Case {
    pub hist: HistSpec,
    /// (position selector, how many blocks early): one block of the history is delivered before its
    /// 1..3 direct ancestors (it arrives above the tip, is stored, and is connected when they and
    /// its child have arrived). None: every block is delivered after its parent.
    #[serde(default)]
    pub early: Option<(u16, u8)>,
}

#[derive(Debug, Clone, Copy, PartialEq, Eq, Hash, Serialize)]
pub enum Tear {
    Complete,
    Absent,
    ZeroBytes,
    InsideHeader,
    ExactlyHeader,
    InsideTransaction,
    LastByteMissing,
    /// exactly between two transactions (after the k-th one)
    BetweenTransactions(u8),
    /// eight bytes into the length fields of the transaction after the k-th one
    InsideLengthFields(u8),
}
const TEARS: [Tear; 13] = [
    Tear::Complete,
    Tear::Absent,
    Tear::ZeroBytes,
    Tear::InsideHeader,
    Tear::ExactlyHeader,
    Tear::InsideTransaction,
    Tear::LastByteMissing,
    Tear::BetweenTransactions(1),
    Tear::BetweenTransactions(2),
    Tear::BetweenTransactions(3),
    Tear::InsideLengthFields(1),
    Tear::InsideLengthFields(2),
    Tear::InsideLengthFields(3),
];

#[derive(Debug, Default)]
pub struct Info {
    pub reboots: usize,
    pub journal_ops: usize,
    pub cuts_inside_reorg: usize,
    pub cuts_inside_pruning: usize,
    pub torn_reboots: usize,
    pub came_up_on_ancestor: usize,
    pub came_up_on_tip: usize,
    pub extended_after_reboot: usize,
    pub max_height: u64,
    pub invalid_side_blocks_stored: usize,
    pub second_restarts: usize,
    pub early_deliveries: usize,
    pub crashes_during_restart: usize,
    /// second restart ended on another branch (finding F41's territory; not judged here)
    pub second_restart_other_branch: usize,
}

fn in_window_set(chain: &saito_core::core::consensus::blockchain::Blockchain, gp: u64) -> BTreeSet<UKey> {
    let tip = chain.get_latest_block_id();
    chain
        .utxoset
        .iter()
        .filter(|(_, v)| **v)
        .filter(|(k, _)| {
            let bid = u64::from_be_bytes(k[33..41].try_into().unwrap());
            let amount = u64::from_be_bytes(k[50..58].try_into().unwrap());
            amount > 0 && bid + gp >= tip
        })
        .map(|(k, _)| k.to_vec())
        .collect()
}

fn reboot(ncfg: NodeCfg, files: BTreeMap<String, Vec<u8>>) -> (NetNode, HandlerOutcome) {
    let io = MemIO::new();
    io.set_files(files);
    let clock = Arc::new(AtomicU64::new(9_000_000));
    let mut n = NetNode::new(0, ncfg, clock, 1, 4, io); // one static peer: the node must not mint a genesis block of its own
    let o = n.init();
    (n, o)
}

/// Checks a rebooted node. `allowed`: hashes of blocks whose file was complete before the crash.
fn check_rebooted(n: &mut NetNode, table: &BlockTable, allowed: &BTreeSet<SaitoHash>, invalid: &BTreeSet<SaitoHash>, gp: u64, issued: u128, ctxs: &str, info: &mut Info, pre_tip: SaitoHash) -> Vec<(String, String)> {
    let mut v = vec![];
    let (tip_id, tip_hash) = n.tip();
    if tip_hash == [0; 32] {
        if !allowed.is_empty() {
            // files were on disk, yet the node came up empty: allowed only if the first file in load order was the torn one
        }
        return v;
    }
    if !allowed.contains(&tip_hash) {
        v.push((format!("C12|tip_not_a_persisted_block|{ctxs}"), format!("after the restart the tip {} (height {}) is not a block that was completely stored before the crash", hx(&tip_hash), tip_id)));
        return v;
    }
    if tip_hash == pre_tip {
        info.came_up_on_tip += 1;
    } else {
        info.came_up_on_ancestor += 1;
    }
    let path = match table.path(&tip_hash) {
        Some(p) => p,
        None => return v,
    };
    if let Some(bad) = path.iter().find(|b| invalid.contains(&b.hash)) {
        v.push((
            format!("C12|invalid_block_on_chain_after_restart|{ctxs}"),
            format!("after the restart the chain of the tip (height {}) contains block {} (height {}), which is invalid by construction and was never accepted onto the chain before the crash", tip_id, hx(&bad.hash), bad.id),
        ));
        return v;
    }
    // the chain of the restarted tip is connected: every ancestor that is not yet past the purge
    // horizon (2 x genesis period below the tip) is held by the node
    {
        let chain = block_on(n.chain_lock.read());
        // (what the node may have purged before the crash is bounded by the highest block of the
        // history, not by the tip it came up on)
        let highest = table.by_hash.values().map(|b| b.id).max().unwrap_or(tip_id).max(tip_id);
        let horizon = highest.saturating_sub(2 * gp);
        if let Some(missing) = path.iter().rev().find(|b| b.id > horizon && !chain.blocks.contains_key(&b.hash)) {
            v.push((
                format!("C12|chain_of_restarted_tip_not_connected|{ctxs}"),
                format!("after the restart the tip is at height {} but its ancestor at height {} (above the purge horizon {}) is not held by the node: the chain does not reach back to what it is built on", tip_id, missing.id, horizon),
            ));
            return v;
        }
    }
    // C03-style consistency on what the node keeps (heights it loaded)
    {
        let chain = block_on(n.chain_lock.read());
        let loaded_from = chain.blocks.values().map(|b| b.id).min().unwrap_or(1);
        for b in path.iter().filter(|b| b.id >= loaded_from) {
            let got = chain.blockring.get_longest_chain_block_hash_at_block_id(b.id);
            if got != Some(b.hash) {
                v.push((format!("C12|chain_index_after_restart|{ctxs}"), format!("index at height {} is {:?}, the tip's ancestor there is {}", b.id, got.map(|h| hx(&h)), hx(&b.hash))));
                break;
            }
        }
        for (h, b) in chain.blocks.iter() {
            let on = path.iter().any(|p| &p.hash == h);
            if b.in_longest_chain != on {
                v.push((format!("C12|block_flag_after_restart|{ctxs}"), format!("stored block {} (height {}) has in_longest_chain={} after the restart", hx(h), b.id, b.in_longest_chain)));
                break;
            }
        }
        // spendable in-window outputs == replay of the tip's ancestor path
        let (ledger, _) = RefLedger::replay(gp, &path);
        let want: BTreeSet<UKey> = ledger.utxo.iter().filter(|(_, e)| e.amount > 0 && ledger.in_window(e.block_id, tip_id) && e.block_id >= loaded_from).map(|(k, _)| k.clone()).collect();
        let have: BTreeSet<UKey> = in_window_set(&chain, gp).into_iter().filter(|k| u64::from_be_bytes(k[33..41].try_into().unwrap()) >= loaded_from).collect();
        if want != have {
            v.push((
                format!("C12|spendable_set_after_restart|{ctxs}"),
                format!("after the restart (tip height {}, loaded from height {}) the in-window spendable set has {} entries, the replay of the tip's chain {} ({} missing, {} extra)", tip_id, loaded_from, have.len(), want.len(), want.difference(&have).count(), have.difference(&want).count()),
            ));
        }
        // supply, when the node holds the whole window
        if loaded_from == 1 || tip_id >= loaded_from + gp + 1 {
            if let Some(s) = impl_supply_u128(&chain, gp) {
                if s != issued {
                    v.push((format!("C12|supply_after_restart|{ctxs}"), format!("supply after the restart is {s}, issued {issued} (tip height {tip_id}, loaded from {loaded_from})")));
                }
            }
        }
    }
    if !v.is_empty() {
        return v;
    }
    // the node can extend its chain: a producer holding the same chain builds the next block
    let mut builder = Node::new(n.cfg_ncfg(), 0);
    {
        let chain = block_on(n.chain_lock.read());
        let loaded_from = chain.blocks.values().map(|b| b.id).min().unwrap_or(1);
        drop(chain);
        // the builder needs the same view as the node: replay what the node holds (from its first block)
        for b in path.iter().filter(|b| b.id >= loaded_from) {
            let _ = block_on(builder.add_guarded((*b).clone()));
        }
    }
    if builder.tip().1 == tip_hash {
        let tb = builder.chain.get_latest_block().unwrap().clone();
        let ts = tb.timestamp + 250;
        let gt = if density_needs_gt(&builder) { block_on(builder.mine_gt(tip_hash, &key(1), 4242)) } else { None };
        let txs = if gt.is_none() { vec![carrier_tx(&key(2), ts)] } else { vec![] };
        if let Ok(nb) = block_on(builder.make_block_as(&key(2), tip_hash, ts, txs, gt)) {
            if matches!(block_on(builder.add_guarded(nb.clone())).as_ref().map(res_str), Some("added_lc")) {
                let r = crate::ctx::catch(|| n.add_direct(nb.clone()));
                match r {
                    crate::ctx::Outcome::Returned("added_lc") => {
                        info.extended_after_reboot += 1;
                        // the recovered node is an ordinary node again: after one more block a clean
                        // restart from its own files must come back on the extended tip
                        let ts2 = ts + 30_000;
                        let gt2 = if density_needs_gt(&builder) { block_on(builder.mine_gt(nb.hash, &key(1), 4343)) } else { None };
                        let txs2 = if gt2.is_none() { vec![carrier_tx(&key(2), ts2)] } else { vec![] };
                        if let Ok(nb2) = block_on(builder.make_block_as(&key(2), nb.hash, ts2, txs2, gt2)) {
                            if matches!(block_on(builder.add_guarded(nb2.clone())).as_ref().map(res_str), Some("added_lc")) && matches!(crate::ctx::catch(|| n.add_direct(nb2.clone())), crate::ctx::Outcome::Returned("added_lc")) {
                                let (n2, o2) = reboot(n.cfg_ncfg(), n.io.files());
                                info.second_restarts += 1;
                                match o2 {
                                    HandlerOutcome::Panicked(site, msg) => v.push((format!("C12|panic_on_second_restart|site={site}|{ctxs}"), format!("the node recovered, was extended by two blocks and restarted cleanly: panic at {site}: {msg}"))),
                                    _ => {
                                        let t2 = n2.tip();
                                        if t2.1 != nb2.hash {
                                            let lost = t2.1 == nb.hash || t2.1 == [0; 32] || path.iter().any(|b| b.hash == t2.1);
                                            if lost {
                                                v.push((
                                                    format!("C12|blocks_lost_at_restart_after_recovery|{ctxs}"),
                                                    format!("the node recovered on height {}, was extended to height {} and shut down cleanly; restarted from its own files it is back on height {} ({}), an ancestor: the blocks above are lost", tip_id, nb2.id, t2.0, hx(&t2.1)),
                                                ));
                                            } else {
                                                info.second_restart_other_branch += 1;
                                            }
                                        }
                                    }
                                }
                            }
                        }
                    }
                    crate::ctx::Outcome::Returned(other) => v.push((format!("C12|cannot_extend_after_restart|{ctxs}"), format!("a valid next block on the restarted node's tip (height {}) was answered with {}", tip_id, other))),
                    crate::ctx::Outcome::Panicked(site, msg) => v.push((format!("C12|panic_extending_after_restart|site={site}|{ctxs}"), format!("adding the next block after the restart panicked at {site}: {msg}"))),
                }
            }
        }
    }
    v
}

const F37_KEY: &str = "C12|restart_adopts_unvalidated_side_block|window_not_loaded";

/// Finding F37: the file set holds a block that is invalid by construction (stored as a side-chain
/// block without ever being validated) and no longer holds the genesis block, so the restarting node
/// loads it while utxo validation is still switched off.
fn f37_applies(files: &BTreeMap<String, Vec<u8>>, built: &Built) -> bool {
    let name = |b: &Block| format!("{}{}", BLOCK_DIR, b.get_file_name());
    !files.contains_key(&name(&built.blocks[0])) && built.blocks.iter().zip(built.invalid.iter()).any(|(b, i)| i.is_some() && files.contains_key(&name(b)))
}

pub fn run_case(case: &Case, full: bool) -> (Vec<(String, String)>, Info) {
    let mut info = Info::default();
    let mut v: Vec<(String, String)> = vec![];
    let gp = case.hist.ncfg.gp;
    let issued: u128 = case.hist.issuance.iter().map(|(_, a)| *a as u128).sum::<u128>() + case.hist.treasury as u128;
    let built = block_on(build_history(&case.hist));
    let table = BlockTable::from_blocks(&built.blocks);
    let invalid: BTreeSet<SaitoHash> = built.blocks.iter().zip(built.invalid.iter()).filter(|(_, i)| i.is_some()).map(|(b, _)| b.hash).collect();
    // the node whose storage is journalled
    let mut d = Deliverer::new(Node::new(case.hist.ncfg, 0), 10_000);
    // (journal length after the delivery, tip after the delivery, was this delivery a reorganisation)
    let mut marks: Vec<(usize, SaitoHash, bool, bool)> = vec![];
    // delivery order: as built, except for one block that may come early
    let n = built.blocks.len();
    let mut order: Vec<usize> = (0..n).collect();
    let mut early_plan: Option<(usize, usize)> = None; // (index of the early block, k)
    if let Some((sel, k)) = case.early {
        let k = 1 + (k % 3) as usize;
        if n > k + 3 {
            // all positions whose k ancestors, the block itself and its child form one line of valid blocks
            let cands: Vec<usize> = (k + 1..=n - 2).filter(|&i| (i - k..=i + 1).all(|j| built.blocks[j].previous_block_hash == built.blocks[j - 1].hash && built.invalid[j].is_none())).collect();
            if !cands.is_empty() {
                early_plan = Some((cands[(sel as usize * cands.len()) >> 16], k));
            }
        }
    }
    if let Some((i, k)) = early_plan {
        order = (0..i - k).chain(std::iter::once(i)).chain(i - k..i).chain(i + 1..n).collect();
    }
    for (pos, &bi) in order.iter().enumerate() {
        let b = &built.blocks[bi];
        if let Some((i, k)) = early_plan {
            if bi == i && pos == i - k {
                // only if the early block really lands above the tip (its grand-parent line is the tip)
                if d.node.tip().1 != built.blocks[i - k - 1].hash {
                    // fall back to the built order from here on
                    early_plan = None;
                    for &bj in (i - k..n).collect::<Vec<_>>().iter() {
                        let b = &built.blocks[bj];
                        if is_rootless(&d.node, &table, b) {
                            continue;
                        }
                        let jl0 = d.node.io.st.journal.lock().unwrap().len();
                        let outs = d.deliver(b);
                        if d.dead {
                            return (v, info);
                        }
                        let reorg = outs.iter().any(|o| o.tip_after.1 != o.tip_before.1 && o.tip_before.1 != [0; 32] && table.by_hash.get(&o.tip_after.1).map(|nb| nb.previous_block_hash != o.tip_before.1).unwrap_or(false));
                        let j = d.node.io.journal();
                        let pruned = j[jl0..].iter().any(|op| matches!(op, JournalOp::Remove(_)));
                        marks.push((j.len(), d.node.tip().1, reorg, pruned));
                        info.max_height = info.max_height.max(d.node.tip().0);
                    }
                    break;
                }
                info.early_deliveries += 1;
            }
        }
        if early_plan.is_none() && is_rootless(&d.node, &table, b) {
            continue;
        }
        let jl0 = d.node.io.st.journal.lock().unwrap().len();
        let outs = d.deliver(b);
        if d.dead {
            return (v, info);
        }
        let reorg = outs.iter().any(|o| o.tip_after.1 != o.tip_before.1 && o.tip_before.1 != [0; 32] && table.by_hash.get(&o.tip_after.1).map(|nb| nb.previous_block_hash != o.tip_before.1).unwrap_or(false));
        let j = d.node.io.journal();
        let pruned = j[jl0..].iter().any(|op| matches!(op, JournalOp::Remove(_)));
        marks.push((j.len(), d.node.tip().1, reorg, pruned));
        info.max_height = info.max_height.max(d.node.tip().0);
    }
    info.invalid_side_blocks_stored = invalid.iter().filter(|h| d.node.chain.blocks.contains_key(*h)).count();
    let journal = d.node.io.journal();
    info.journal_ops = journal.len();
    let final_files = d.node.io.files();
    let final_tip = d.node.tip();

    // ---- clean restart ----
    let mut f37_hit = false;
    'clean: {
        let f37 = f37_applies(&final_files, &built);
        let (mut n, o) = reboot(case.hist.ncfg, final_files.clone());
        info.reboots += 1;
        if let HandlerOutcome::Panicked(site, msg) = o {
            if f37 {
                v.push((F37_KEY.into(), format!("restart from the final file set panicked at {site}: {msg}")));
                f37_hit = true;
                break 'clean;
            }
            v.push((format!("C12|panic_on_clean_restart|site={site}"), format!("restart from the final file set panicked at {site}: {msg}")));
            return (v, info);
        }
        let t = n.tip();
        if f37 {
            // judged as a whole: any deviation is attributed to the finding
            let before = in_window_set(&d.node.chain, gp);
            let after = in_window_set(&block_on(n.chain_lock.read()), gp);
            let allowed: BTreeSet<SaitoHash> = table.by_hash.keys().cloned().collect();
            let r = check_rebooted(&mut n, &table, &allowed, &invalid, gp, issued, "clean", &mut info, final_tip.1);
            if t != final_tip || before != after || !r.is_empty() {
                let what = r.first().map(|x| x.1.clone()).unwrap_or_else(|| "tip or spendable set differ after a clean restart".into());
                v.push((F37_KEY.into(), what));
                f37_hit = true;
            }
            break 'clean;
        }
        let on_final_path = table.path(&final_tip.1).map(|p| p.iter().any(|b| b.hash == t.1)).unwrap_or(false);
        if t != final_tip && !on_final_path && table.by_hash.contains_key(&t.1) && table.path(&t.1).map(|p| p.iter().all(|b| !invalid.contains(&b.hash))).unwrap_or(false) {
            // finding F41: start-up replays the block directory in file (timestamp) order and fork
            // choice depends on arrival order: a competing valid branch whose blocks sort earlier is
            // adopted first and the chain the node was on may then fail to displace it (equal length,
            // or longer but lighter in burn fee)
            v.push((
                "C12|clean_restart_tip_differs|competing_valid_branch_wins_by_file_order".into(),
                format!("before shutdown the tip was {}/{}, after a clean restart it is {}/{}, the tip of a competing valid branch", final_tip.0, hx(&final_tip.1), t.0, hx(&t.1)),
            ));
            break 'clean;
        }
        if t != final_tip {
            v.push(("C12|clean_restart_tip_differs".into(), format!("before shutdown the tip was {}/{}, after a clean restart it is {}/{}", final_tip.0, hx(&final_tip.1), t.0, hx(&t.1))));
            return (v, info);
        }
        let before = in_window_set(&d.node.chain, gp);
        let after = in_window_set(&block_on(n.chain_lock.read()), gp);
        if before != after {
            v.push((
                "C12|clean_restart_spendable_set_differs".into(),
                format!("in-window spendable outputs before shutdown: {}, after a clean restart: {} ({} lost, {} new)", before.len(), after.len(), before.difference(&after).count(), after.difference(&before).count()),
            ));
            return (v, info);
        }
        let allowed: BTreeSet<SaitoHash> = table.by_hash.keys().cloned().collect();
        // the restart itself writes (it stores the blocks it loads again): its journal, before the
        // follow-up checks extend the chain
        let restart_journal = n.io.journal();
        v.extend(check_rebooted(&mut n, &table, &allowed, &invalid, gp, issued, "clean", &mut info, final_tip.1));
        if !v.is_empty() {
            return (v, info);
        }
        // ---- crash during the restart: the process dies while the restart is rewriting its files ----
        if !restart_journal.is_empty() && !f37_applies(&final_files, &built) {
            let stride2 = (restart_journal.len() / 6).max(1);
            let mut files2 = final_files.clone();
            for (k, op) in restart_journal.iter().enumerate() {
                match op {
                    JournalOp::Remove(key) => {
                        files2.remove(key);
                    }
                    JournalOp::Write(key, bytes) => {
                        if k % stride2 == 0 {
                            for tear in [Tear::ZeroBytes, Tear::InsideHeader, Tear::LastByteMissing] {
                                let content = match tear {
                                    Tear::ZeroBytes => vec![],
                                    Tear::InsideHeader => bytes[..bytes.len().min(BLOCK_HEADER_SIZE / 2)].to_vec(),
                                    _ => bytes[..bytes.len() - 1].to_vec(),
                                };
                                let mut f = files2.clone();
                                f.insert(key.clone(), content);
                                let allowed2: BTreeSet<SaitoHash> = table.by_hash.iter().filter(|(_, b)| f.get(&format!("{}{}", BLOCK_DIR, b.get_file_name())).map(|c| c.len()) == Some(b.serialize_for_net(saito_core::core::consensus::block::BlockType::Full).len())).map(|(h, _)| *h).collect();
                                let (mut n2, o2) = reboot(case.hist.ncfg, f);
                                info.reboots += 1;
                                info.torn_reboots += 1;
                                info.crashes_during_restart += 1;
                                let ctxs = format!("tear={:?}|during_restart", tear);
                                if let HandlerOutcome::Panicked(site, msg) = o2 {
                                    v.push((format!("C12|panic_on_restart|site={site}|{ctxs}"), format!("second restart after a crash at op {k} of the first restart's own journal panicked at {site}: {msg}")));
                                    return (v, info);
                                }
                                let r = check_rebooted(&mut n2, &table, &allowed2, &invalid, gp, issued, &ctxs, &mut info, final_tip.1);
                                if !r.is_empty() {
                                    for (key, what) in r {
                                        v.push((key, format!("crash at op {k}/{} of the restart's own journal: {what}", restart_journal.len())));
                                    }
                                    return (v, info);
                                }
                            }
                        }
                        files2.insert(key.clone(), bytes.clone());
                    }
                }
            }
        }
    }

    // ---- crash enumeration ----
    let mut files: BTreeMap<String, Vec<u8>> = BTreeMap::new();
    let stride = if full { 1 } else { (journal.len() / 14).max(1) };
    for (k, op) in journal.iter().enumerate() {
        let mark = marks.iter().find(|m| m.0 > k);
        let pre_tip = marks.iter().filter(|m| m.0 <= k).last().map(|m| m.1).unwrap_or([0; 32]);
        let inside_reorg = mark.map(|m| m.2).unwrap_or(false);
        let inside_prune = mark.map(|m| m.3).unwrap_or(false);
        let explore = k % stride == 0 || inside_reorg || inside_prune || k + 1 == journal.len();
        match op {
            JournalOp::Remove(key) => {
                if explore {
                    // crash right before the removal (files as they are) is the "Complete" state of the previous op
                }
                files.remove(key);
            }
            JournalOp::Write(key, bytes) => {
                if explore {
                    if inside_reorg {
                        info.cuts_inside_reorg += 1;
                    }
                    if inside_prune {
                        info.cuts_inside_pruning += 1;
                    }
                    let first_tx_end = BLOCK_HEADER_SIZE + 40;
                    // byte offsets at which the k-th transaction of this block file ends
                    let tx_ends: Vec<usize> = match Block::deserialize_from_net(bytes) {
                        Ok(blk) => {
                            let mut o = BLOCK_HEADER_SIZE;
                            blk.transactions
                                .iter()
                                .map(|t| {
                                    o += t.serialize_for_net().len();
                                    o
                                })
                                .collect()
                        }
                        Err(_) => vec![],
                    };
                    for tear in TEARS {
                        let content: Option<Vec<u8>> = match tear {
                            Tear::Complete => Some(bytes.clone()),
                            Tear::Absent => None,
                            Tear::ZeroBytes => Some(vec![]),
                            Tear::InsideHeader => Some(bytes[..bytes.len().min(BLOCK_HEADER_SIZE / 2)].to_vec()),
                            Tear::ExactlyHeader => Some(bytes[..bytes.len().min(BLOCK_HEADER_SIZE)].to_vec()),
                            Tear::InsideTransaction => {
                                if bytes.len() <= first_tx_end {
                                    continue;
                                }
                                Some(bytes[..first_tx_end].to_vec())
                            }
                            Tear::LastByteMissing => Some(bytes[..bytes.len() - 1].to_vec()),
                            Tear::BetweenTransactions(k) | Tear::InsideLengthFields(k) => {
                                // only where a further transaction follows
                                let k = k as usize;
                                if k >= tx_ends.len() {
                                    continue;
                                }
                                let cut = tx_ends[k - 1] + if matches!(tear, Tear::InsideLengthFields(_)) { 8 } else { 0 };
                                if cut >= bytes.len() {
                                    continue;
                                }
                                Some(bytes[..cut].to_vec())
                            }
                        };
                        let mut f = files.clone();
                        match &content {
                            Some(c) => {
                                f.insert(key.clone(), c.clone());
                            }
                            None => {}
                        }
                        // blocks whose file is completely on disk
                        let allowed: BTreeSet<SaitoHash> = table.by_hash.iter().filter(|(_, b)| f.get(&format!("{}{}", BLOCK_DIR, b.get_file_name())).map(|c| c.len()) == Some(b.serialize_for_net(saito_core::core::consensus::block::BlockType::Full).len())).map(|(h, _)| *h).collect();
                        let f37 = f37_applies(&f, &built);
                        if f37 && f37_hit {
                            continue; // already attributed once in this history
                        }
                        let (mut n, o) = reboot(case.hist.ncfg, f);
                        info.reboots += 1;
                        if !matches!(tear, Tear::Complete | Tear::Absent) {
                            info.torn_reboots += 1;
                        }
                        let ctxs = format!("tear={:?}", tear);
                        if let HandlerOutcome::Panicked(site, msg) = o {
                            if f37 {
                                v.push((F37_KEY.into(), format!("restart after a crash at journal op {k} ({:?}) panicked at {site}: {msg}", tear)));
                                f37_hit = true;
                                continue;
                            }
                            v.push((format!("C12|panic_on_restart|site={site}|{ctxs}"), format!("restart after a crash at journal op {k} ({:?}) panicked at {site}: {msg}", tear)));
                            return (v, info);
                        }
                        let r = check_rebooted(&mut n, &table, &allowed, &invalid, gp, issued, &ctxs, &mut info, pre_tip);
                        if !r.is_empty() && f37 {
                            v.push((F37_KEY.into(), format!("crash at journal op {k}/{}: {}", journal.len(), r[0].1)));
                            f37_hit = true;
                            continue;
                        }
                        if !r.is_empty() {
                            for (key, what) in r {
                                v.push((key, format!("crash at journal op {k}/{}: {what}", journal.len())));
                            }
                            return (v, info);
                        }
                    }
                }
                files.insert(key.clone(), bytes.clone());
            }
        }
    }
    (v, info)
}

fn eval(c: &mut Ctx, case: &Case, counting: bool, full: bool) -> Vec<(String, String)> {
    let (v, info) = run_case(case, full);
    if counting {
        c.evals(info.reboots.max(1) as u64);
        if info.cuts_inside_reorg > 0 || info.cuts_inside_pruning > 0 {
            c.nontrivial(&digest(case));
        }
        for (n, k) in [
            (info.cuts_inside_reorg, "crash_points_inside_a_reorganisation"),
            (info.cuts_inside_pruning, "crash_points_inside_a_pruning_step"),
            (info.torn_reboots, "reboots_with_torn_last_write"),
            (info.came_up_on_ancestor, "came_up_on_an_earlier_block"),
            (info.came_up_on_tip, "came_up_on_pre_crash_tip"),
            (info.extended_after_reboot, "extended_chain_after_reboot"),
            (info.invalid_side_blocks_stored, "invalid_side_block_on_disk_at_shutdown"),
            (info.second_restarts, "second_clean_restart_after_recovery_and_two_more_blocks"),
            (info.early_deliveries, "history_with_a_block_delivered_before_its_ancestors"),
            (info.crashes_during_restart, "crash_points_inside_the_restart_itself(torn_rewrite)"),
            (info.second_restart_other_branch, "second_restart_on_another_branch(F41 territory, not judged)"),
        ] {
            if n > 0 {
                *c.classes.entry(k.to_string()).or_insert(0) += n as u64;
            }
        }
        if info.cuts_inside_pruning > 0 {
            c.sample_class("prune", json!({"hist_blocks": case.hist.blocks.len(), "gp": case.hist.ncfg.gp, "info": format!("{:?}", info), "hist": case.hist}));
        }
    }
    v
}

pub fn arb_case(max_blocks: usize) -> impl Strategy<Value = Case> {
    (arb_case_in_order(max_blocks), prop_oneof![1 => Just(None), 1 => (any::<u16>(), 0u8..3).prop_map(Some)]).prop_map(|(mut c, early)| {
        c.early = early;
        c
    })
}

fn arb_case_in_order(max_blocks: usize) -> impl Strategy<Value = Case> {
    (arb_forked_hist(max_blocks), prop_oneof![Just(4u64), Just(5u64), Just(6u64)]).prop_map(|(mut hist, gp)| {
        hist.ncfg.gp = gp;
        hist.ncfg.loading_completed = false; // what a real node runs with
        hist.issuance.extend([(0u8, 400_000_000u64), (1, 500_000_000), (2, 600_000_000)]);
        if hist.issuance.iter().any(|(_, a)| *a >= (1u64 << 36)) {
            hist.treasury = 0;
        }
        for (i, b) in hist.blocks.iter_mut().enumerate() {
            if i % 4 != 2 {
                b.parent = None;
            } else if let Some(p) = b.parent {
                // shallow forks only (one to three blocks back): the journal must contain reorganisations,
                // but not side chains whose fork point has been purged (known finding F10)
                b.parent = None;
                b.back = Some(1 + (p % 3) as u8);
            }
        }
        // every eighth position: an *invalid* sibling of the previous block with an earlier timestamp
        // (it arrives when its chain is not longer, so the node stores it without validating it; its
        // file sorts before the honest sibling's), after which the history returns to the honest block
        let n = hist.blocks.len();
        for i in 0..n {
            if i % 8 == 5 && i + 1 < n {
                let prev_dt = hist.blocks[i - 1].dt;
                let sel = hist.blocks[i].dt as usize + i;
                let b = &mut hist.blocks[i];
                b.parent = None;
                b.back = Some(1);
                b.dt = (prev_dt / 2).max(1);
                if sel % 2 == 0 {
                    const E: [crate::adversary::TxEdit; 5] = [
                        crate::adversary::TxEdit::SpentInput,
                        crate::adversary::TxEdit::NonExistentInput,
                        crate::adversary::TxEdit::InflatedInput,
                        crate::adversary::TxEdit::Overspend,
                        crate::adversary::TxEdit::ForgedSig,
                    ];
                    b.bad_tx = Some((E[(sel / 2) % E.len()], 1, 0));
                } else {
                    const H: [crate::adversary::BlockEdit; 6] = [
                        crate::adversary::BlockEdit::Treasury,
                        crate::adversary::BlockEdit::Graveyard,
                        crate::adversary::BlockEdit::PrevUnpaid,
                        crate::adversary::BlockEdit::AvgTotalFees,
                        // rebroadcast outputs paid to another key (falls back to nothing if the block
                        // has no rebroadcast transaction: then the sibling is simply a valid block)
                        crate::adversary::BlockEdit::AtrRedirect,
                        crate::adversary::BlockEdit::AtrRedirect,
                    ];
                    b.corrupt = Some(H[(sel / 2) % H.len()]);
                }
                let r = &mut hist.blocks[i + 1];
                r.parent = None;
                r.back = Some(1);
            }
        }
        Case { hist, early: None }
    })
}

pub fn run(ctx: &mut Ctx) {
    ctx.rule = "generated histories (up to 40 blocks, gp in {4,5,6} so that pruning at 2*gp and rebroadcast happen, shallow forks so that the journal contains reorganisations) are executed on a node whose InterfaceIO journals every write_value/remove_value. clean restart: a fresh node booted through the real ConsensusThread::on_init from the final file set must have the same tip and the same in-window spendable set. crash enumeration: for journal prefixes (every prefix in the thorough tier; in the quick tier every prefix inside a reorganisation or pruning step plus a stride over the rest) with the last write complete, absent, or torn at 0 bytes / inside the header / exactly the header / inside the first transaction / last byte missing: the reboot must return (no panic), the tip must be a block whose file was completely on disk, by-height index and on-chain flags must describe the tip's ancestors, the in-window spendable set must equal the independent replay of the tip's chain, supply must be conserved when the whole window is held, and a valid next block must be accepted. evaluations = reboots. non-trivial = a crash point inside a reorganisation or a pruning step; distinct by case digest".into();
    ctx.assumptions.push("Torn-write model: a crash during write_value leaves a prefix of the new content under the final name (RustIOHandler::write_value creates the file and write_all()s into it, no temp file / rename); remove_value is atomic. The native I/O handler itself is not executed.".into());
    ctx.assumptions.push("The rebooted node is configured with a static peer, as a joining node would be, so that it never mints a genesis block of its own when it finds no usable block file.".into());
    let full = ctx.tier == crate::ctx::Tier::Thorough;
    // directed: past the window wrap, one stored-but-never-validated sibling (earlier timestamp, so
    // its file sorts first at restart) whose rebroadcast outputs are paid to another key, or whose
    // header lies; the history returns to the honest block and goes on
    for gp in [4u64, 5] {
        for at in [gp as usize + 2, gp as usize + 4] {
            for edit in [crate::adversary::BlockEdit::AtrRedirect, crate::adversary::BlockEdit::Treasury] {
                let n = at + 3;
                let mut blocks: Vec<BlockSpec> = (0..n)
                    .map(|i| BlockSpec {
                        parent: None,
                        dt: 250,
                        gt: i % 2 == 0,
                        creator: 0,
                        miner: 1,
                        txs: vec![TxSpec { payer: (i % 3 + 1) as u8, payee: 0, amount_sel: 3000, fee: 500 + i as u64, routers: vec![], with_path: false, max_inputs: 1, nft: false }],
                        bad_tx: None,
                        corrupt: None,
                        back: None,
                    })
                    .collect();
                blocks[at].back = Some(1);
                blocks[at].dt = 100;
                blocks[at].corrupt = Some(edit);
                blocks[at + 1].back = Some(1);
                let hist = HistSpec { ncfg: NodeCfg { gp, heartbeat: 100, social_stake: 0, loading_completed: false, prune: 8 }, treasury: 0, issuance: vec![(0, 50_000_000), (1, 60_000_000), (2, 70_000_000), (3, 80_000_000), (1, 5_000_000), (2, 6_000_000), (3, 7_000_000)], blocks, gt_policy: true };
                let case = Case { hist, early: None };
                for (k, w) in eval(ctx, &case, true, full) {
                    ctx.violation(&k, w, json!({"check": "directed_unvalidated_sibling", "case": case}));
                }
            }
        }
    }
    let cases = ctx.tier.pick(20u32, 400);
    pbt_run(ctx, "crash_points", cases, arb_case(40), |c, case, counting| eval(c, case, counting, full));
}

pub fn replay(ctx: &mut Ctx, v: &serde_json::Value) -> bool {
    let case: Case = match serde_json::from_value(v.get("case").cloned().unwrap_or(v.clone())) {
        Ok(c) => c,
        Err(_) => return false,
    };
    for (k, w) in eval(ctx, &case, true, true) {
        ctx.violation(&k, w, json!({"check": "replay", "case": case}));
    }
    true
}

#[allow(dead_code)]
fn _u(_: Block) {}
