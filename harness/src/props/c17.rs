//! C17 — the handshake authenticates the peer's key. Two honest nodes, an active attacker who can
//! drop, reorder, replay and redirect observed messages and owns connections of its own, but
//! cannot forge signatures.

use std::collections::{BTreeMap, BTreeSet};
use std::sync::atomic::AtomicU64;
use std::sync::Arc;

use proptest::prelude::*;
use saito_core::core::consensus::peers::peer::PeerStatus;
use saito_core::core::defs::*;
use saito_core::core::io::network_event::NetworkEvent;
use saito_core::core::msg::handshake::{HandshakeChallenge, HandshakeResponse};
use saito_core::core::msg::message::Message;
use saito_core::core::process::version::Version;
use saito_core::core::util::crypto::{sign, verify};
use serde::{Deserialize, Serialize};
use serde_json::json;

use crate::ctx::{block_on, digest, pbt_run, Ctx};
use crate::net::*;
use crate::world::*;

// node ids: 0 = A (connects to B through its static peer entry), 1 = B (listener)
// connections: (node, peer index on that node)
const A_TO_B: (usize, u64) = (0, 1); // A's static peer slot
const B_FROM_A: (usize, u64) = (1, 10);
const B_FROM_ATT: (usize, u64) = (1, 11);
const A_FROM_ATT: (usize, u64) = (0, 20);
const B_FROM_ATT2: (usize, u64) = (1, 12);
const ENDPOINTS: [(usize, u64); 5] = [A_TO_B, B_FROM_A, B_FROM_ATT, A_FROM_ATT, B_FROM_ATT2];

#[derive(Debug, Clone, Copy, Serialize, Deserialize, PartialEq, Eq, Hash)]
pub enum Op {
    /// open a connection: 0 = honest A<->B, 1 = attacker->B, 2 = attacker->A, 3 = second attacker->B
    Connect(u8),
    /// the connection-established event arrives once more for a connection index that is still open
    /// (a second socket for that index comes up before any disconnect was processed)
    ConnectAgain(u8),
    /// deliver / drop the oldest undelivered honest message in direction 0 = A->B, 1 = B->A
    Deliver(u8),
    Drop(u8),
    /// swap the two oldest undelivered messages of a direction
    Reorder(u8),
    /// re-send observed message #k (of everything any honest node ever sent) to endpoint #e
    Replay { k: u8, e: u8 },
    /// the attacker answers on endpoint #e (one of its own connections, or injected into the honest one)
    /// with a response signed by its own key over: 0 = the latest challenge that endpoint issued,
    /// 1 = a challenge issued on another endpoint, 2 = random bytes; version: 0 ok, 1 unset, 2 incompatible;
    /// claims: 0 = its own key, 1 = the honest peer's key
    AttackerResponse { e: u8, over: u8, version: u8, claim: u8 },
    /// the attacker sends a challenge to endpoint #e: 0 = random, 1 = a challenge another endpoint issued (signing-oracle attempt)
    AttackerChallenge { e: u8, which: u8 },
    /// unsolicited traffic before/without handshake on endpoint #e
    AttackerOther { e: u8, tag: u8 },
    /// the connection behind endpoint #e drops (0 = the honest link, both ends); it can be opened again
    /// with Connect, under the same connection index (as a static peer is re-dialled)
    Disconnect(u8),
}

#[derive(Debug, Clone, Serialize, Deserialize, PartialEq, Eq, Hash)]
pub struct Case {
    pub ops: Vec<Op>,
}

#[derive(Debug, Default)]
pub struct Info {
    pub steps: usize,
    pub honest_completed: usize,
    pub attacker_connected_as_self: usize,
    pub relay_observed: usize,
    pub failed_attempts: usize,
    pub replays: usize,
    pub disconnects: usize,
    pub redirects: usize,
}

#[derive(Clone, Debug, PartialEq)]
struct PeerView {
    status: u8, // 0 disconnected 1 connecting 2 connected
    key: Option<SaitoPublicKey>,
}

fn view(n: &NetNode) -> (BTreeMap<u64, PeerView>, BTreeMap<Vec<u8>, u64>) {
    let peers = block_on(n.peers_lock.read());
    let m = peers
        .index_to_peers
        .iter()
        .map(|(i, p)| {
            (
                *i,
                PeerView {
                    status: match p.peer_status {
                        PeerStatus::Disconnected(..) => 0,
                        PeerStatus::Connecting => 1,
                        PeerStatus::Connected => 2,
                    },
                    key: p.public_key,
                },
            )
        })
        .collect();
    let a = peers.address_to_peers.iter().map(|(k, v)| (k.to_vec(), *v)).collect();
    (m, a)
}

pub fn run_case(case: &Case) -> (Vec<(String, String)>, Info) {
    let mut info = Info::default();
    let mut v: Vec<(String, String)> = vec![];
    let ncfg = NodeCfg { gp: 100, heartbeat: 100, social_stake: 0, loading_completed: true, prune: 8 };
    let clock = Arc::new(AtomicU64::new(5_000_000));
    let mut nodes = vec![
        NetNode::new(1, ncfg, clock.clone(), 1, 10, MemIO::new()),
        NetNode::new(2, ncfg, clock.clone(), 0, 10, MemIO::new()),
    ];
    for n in nodes.iter_mut() {
        let _ = n.init();
    }
    let honest_key = [key(1), key(2)];
    let att = key(5);
    // where an honest node's message to (node, idx) goes: the honest link, or the attacker
    let route = |from: usize, idx: u64| -> Option<(usize, u64)> {
        match (from, idx) {
            (0, 1) => Some(B_FROM_A),
            (1, 10) => Some(A_TO_B),
            _ => None, // attacker-owned connection
        }
    };
    // honest link queues, per direction (0 = A->B, 1 = B->A)
    let mut wire: [Vec<Vec<u8>>; 2] = [vec![], vec![]];
    // everything any honest node ever sent: (from node, peer idx, bytes)
    let mut observed: Vec<(usize, u64, Vec<u8>)> = vec![];
    // challenges issued by node on endpoint, and accepted ones
    let mut issued: BTreeMap<(usize, u64), Vec<SaitoHash>> = BTreeMap::new();
    let mut accepted: BTreeSet<(usize, u64, SaitoHash)> = BTreeSet::new();
    let mut complete_events: BTreeMap<(usize, u64), usize> = BTreeMap::new();
    let mut opened: BTreeSet<(usize, u64)> = BTreeSet::new();

    // collect what nodes sent after a handler ran
    macro_rules! collect {
        () => {
            for ni in 0..2 {
                for (idx, buf) in nodes[ni].take_outbox() {
                    if let Ok(m) = Message::deserialize(buf.clone()) {
                        match &m {
                            Message::HandshakeChallenge(c) => issued.entry((ni, idx)).or_default().push(c.challenge),
                            Message::HandshakeResponse(r) => {
                                if r.challenge != [0; 32] {
                                    issued.entry((ni, idx)).or_default().push(r.challenge)
                                }
                            }
                            _ => {}
                        }
                    }
                    observed.push((ni, idx, buf.clone()));
                    if let Some(_) = route(ni, idx) {
                        wire[ni].push(buf);
                    }
                }
                nodes[ni].io.st.broadcast.lock().unwrap().clear();
            }
        };
    }

    for (step, op) in case.ops.iter().enumerate() {
        info.steps += 1;
        let before: Vec<_> = nodes.iter().map(view).collect();
        let ev_before: Vec<usize> = nodes.iter().map(|n| n.io.st.events.lock().unwrap().len()).collect();
        // (target node, peer idx, message bytes) delivered in this step, if any
        let mut delivered: Option<(usize, u64, Vec<u8>)> = None;
        let mut reconnected: Vec<(usize, u64)> = vec![];
        let mut opname = "";
        match *op {
            Op::Connect(c) => {
                opname = "connect";
                let eps: Vec<(usize, u64)> = match c % 4 {
                    0 => vec![A_TO_B, B_FROM_A],
                    1 => vec![B_FROM_ATT],
                    2 => vec![A_FROM_ATT],
                    _ => vec![B_FROM_ATT2],
                };
                for (ni, idx) in eps {
                    if opened.insert((ni, idx)) {
                        let o = nodes[ni].net_event(NetworkEvent::PeerConnectionResult { result: Ok((idx, None)) });
                        if let HandlerOutcome::Panicked(site, msg) = o {
                            v.push((format!("C17|panic|site={site}"), format!("step {step}: connection handler panicked at {site}: {msg}")));
                        }
                    }
                }
            }
            Op::ConnectAgain(c) => {
                opname = "connect_again";
                let eps: Vec<(usize, u64)> = match c % 4 {
                    0 => vec![A_TO_B, B_FROM_A],
                    1 => vec![B_FROM_ATT],
                    2 => vec![A_FROM_ATT],
                    _ => vec![B_FROM_ATT2],
                };
                for (ni, idx) in eps {
                    if opened.contains(&(ni, idx)) {
                        // whatever was issued on the previous connection is void for the new one
                        issued.remove(&(ni, idx));
                        let o = nodes[ni].net_event(NetworkEvent::PeerConnectionResult { result: Ok((idx, None)) });
                        if let HandlerOutcome::Panicked(site, msg) = o {
                            v.push((format!("C17|panic|site={site}|op=connect_again"), format!("step {step}: connection handler panicked at {site}: {msg}")));
                        }
                        reconnected.push((ni, idx));
                    }
                }
                if c % 4 == 0 {
                    wire[0].clear();
                    wire[1].clear();
                }
            }
            Op::Deliver(d) => {
                opname = "deliver";
                let d = (d % 2) as usize;
                if !wire[d].is_empty() {
                    let buf = wire[d].remove(0);
                    let (ni, idx) = if d == 0 { B_FROM_A } else { A_TO_B };
                    delivered = Some((ni, idx, buf));
                }
            }
            Op::Disconnect(c) => {
                opname = "disconnect";
                let eps: Vec<(usize, u64)> = match c % 4 {
                    0 => vec![A_TO_B, B_FROM_A],
                    1 => vec![B_FROM_ATT],
                    2 => vec![A_FROM_ATT],
                    _ => vec![B_FROM_ATT2],
                };
                for (ni, idx) in eps {
                    if opened.remove(&(ni, idx)) {
                        info.disconnects += 1;
                        let o = nodes[ni].net_event(NetworkEvent::PeerDisconnected { peer_index: idx, disconnect_type: saito_core::core::io::network::PeerDisconnectType::ExternalDisconnect });
                        if let HandlerOutcome::Panicked(site, msg) = o {
                            v.push((format!("C17|panic|site={site}|op=disconnect"), format!("step {step}: disconnect handler panicked at {site}: {msg}")));
                        }
                        // whatever was issued on the dropped connection is void for its successor
                        issued.remove(&(ni, idx));
                    }
                }
                if c % 4 == 0 {
                    wire[0].clear();
                    wire[1].clear();
                }
            }
            Op::Drop(d) => {
                opname = "drop";
                let d = (d % 2) as usize;
                if !wire[d].is_empty() {
                    wire[d].remove(0);
                }
            }
            Op::Reorder(d) => {
                opname = "reorder";
                let d = (d % 2) as usize;
                if wire[d].len() >= 2 {
                    wire[d].swap(0, 1);
                }
            }
            Op::Replay { k, e } => {
                opname = "replay";
                if !observed.is_empty() {
                    let (from, idx, buf) = observed[k as usize % observed.len()].clone();
                    let (ni, pidx) = ENDPOINTS[e as usize % ENDPOINTS.len()];
                    if opened.contains(&(ni, pidx)) {
                        info.replays += 1;
                        if route(from, idx) != Some((ni, pidx)) {
                            info.redirects += 1;
                        }
                        delivered = Some((ni, pidx, buf));
                    }
                }
            }
            Op::AttackerResponse { e, over, version, claim } => {
                opname = "attacker_response";
                let (ni, pidx) = ENDPOINTS[e as usize % ENDPOINTS.len()];
                if opened.contains(&(ni, pidx)) {
                    let own: Option<SaitoHash> = issued.get(&(ni, pidx)).and_then(|c| c.last().copied());
                    let other: Option<SaitoHash> = issued.iter().filter(|(k, _)| **k != (ni, pidx)).filter_map(|(_, c)| c.last().copied()).next();
                    let ch: SaitoHash = match over % 3 {
                        0 => own.unwrap_or([9; 32]),
                        1 => other.unwrap_or([8; 32]),
                        _ => [7; 32],
                    };
                    let ver = match version % 8 {
                        0 => Version::new(1, 2, 3),
                        1 => Version::new(0, 0, 0),
                        2 => Version::new(9, 9, 9),
                        3 => Version::new(1, 2, 0xffff), // same release line, largest patch level
                        4 => Version::new(1, 0, 0x0203), // another minor version whose patch level has 2 in its high byte
                        5 => Version::new(1, 3, 3),      // next minor version
                        6 => Version::new(0, 2, 3),      // other major version
                        _ => Version::new(1, 2, 0x0100),
                    };
                    let victim = honest_key[1 - ni].0;
                    let r = HandshakeResponse {
                        public_key: if claim % 2 == 0 { att.0 } else { victim },
                        signature: sign(&ch, &att.1),
                        is_lite: false,
                        block_fetch_url: "http://attacker/".into(),
                        // for self-chosen bytes the attacker also echoes them as "its" challenge, so that
                        // an implementation verifying against the response's own field would accept
                        challenge: if over % 3 == 2 { ch } else { [6; 32] },
                        services: vec![],
                        wallet_version: ver,
                        core_version: ver,
                    };
                    delivered = Some((ni, pidx, Message::HandshakeResponse(r).serialize()));
                }
            }
            Op::AttackerChallenge { e, which } => {
                opname = "attacker_challenge";
                let (ni, pidx) = ENDPOINTS[e as usize % ENDPOINTS.len()];
                if opened.contains(&(ni, pidx)) {
                    let other: Option<SaitoHash> = issued.iter().filter(|(k, _)| **k != (ni, pidx)).filter_map(|(_, c)| c.last().copied()).next();
                    let ch = if which % 2 == 1 { other.unwrap_or([5; 32]) } else { [4; 32] };
                    delivered = Some((ni, pidx, Message::HandshakeChallenge(HandshakeChallenge { challenge: ch }).serialize()));
                }
            }
            Op::AttackerOther { e, tag } => {
                opname = "attacker_other";
                let (ni, pidx) = ENDPOINTS[e as usize % ENDPOINTS.len()];
                if opened.contains(&(ni, pidx)) {
                    let m = match tag % 3 {
                        0 => Message::Ping(),
                        1 => Message::BlockHeaderHash([3; 32], 5),
                        _ => Message::KeyListUpdate(vec![att.0]),
                    };
                    // a key-list message from a connection that never authenticated reaches an unwrap; C11's subject
                    if tag % 3 != 2 {
                        delivered = Some((ni, pidx, m.serialize()));
                    }
                }
            }
        }
        if let Some((ni, pidx, buf)) = &delivered {
            let o = nodes[*ni].net_event(NetworkEvent::IncomingNetworkMessage { peer_index: *pidx, buffer: buf.clone() });
            if let HandlerOutcome::Panicked(site, msg) = o {
                v.push((format!("C17|panic|site={site}|op={opname}"), format!("step {step} ({opname}): handler panicked at {site}: {msg}")));
                break;
            }
            let _ = nodes[*ni].pump();
        }
        collect!();
        // ---- monitor ----
        let after: Vec<_> = nodes.iter().map(view).collect();
        // nothing has been signed on a connection that has just come up: it cannot be Connected
        for (ni, idx) in &reconnected {
            if let Some(pv) = after[*ni].0.get(idx) {
                if pv.status == 2 {
                    v.push((
                        "C17|new_connection_inherits_authentication".into(),
                        format!("step {step} ({opname}): node {ni} treats the connection that has just come up under index {idx} as connected under a key although no challenge was answered on it"),
                    ));
                }
            }
        }
        for ni in 0..2 {
            // handshake-complete events of this step
            let evs: Vec<u64> = nodes[ni].io.st.events.lock().unwrap()[ev_before[ni]..]
                .iter()
                .filter_map(|e| if let IfEvent::HandshakeComplete(i) = e { Some(*i) } else { None })
                .collect();
            let mut completions: Vec<u64> = evs.clone();
            for (idx, pv) in &after[ni].0 {
                let was = before[ni].0.get(idx);
                let turned = pv.status == 2 && pv.key.is_some() && was.map(|w| w.status != 2 || w.key != pv.key).unwrap_or(true);
                if turned && !completions.contains(idx) {
                    completions.push(*idx);
                }
            }
            for idx in completions {
                *complete_events.entry((ni, idx)).or_default() += 1;
                let pv = match after[ni].0.get(&idx) {
                    Some(p) => p.clone(),
                    None => continue,
                };
                let k = match pv.key {
                    Some(k) => k,
                    None => {
                        v.push(("C17|complete_without_key".into(), format!("step {step} ({opname}): node {ni} completed a handshake on connection {idx} without a key")));
                        continue;
                    }
                };
                // the message just delivered must be a response carrying K's signature over a fresh challenge of this connection
                let mut incompatible: Option<String> = None;
                let proof = match &delivered {
                    Some((dn, di, buf)) if *dn == ni && *di == idx => match Message::deserialize(buf.clone()) {
                        Ok(Message::HandshakeResponse(r)) => {
                            let cands = issued.get(&(ni, idx)).cloned().unwrap_or_default();
                            let cv = r.core_version;
                            if !(cv.major == 1 && cv.minor == 2) {
                                // the honest nodes of this world run core version 1.2.3: anything outside 1.2.x is incompatible
                                incompatible = Some(format!("{}.{}.{}", cv.major, cv.minor, cv.patch));
                            }
                            cands.into_iter().find(|c| !accepted.contains(&(ni, idx, *c)) && r.public_key == k && verify(c, &r.signature, &k))
                        }
                        _ => None,
                    },
                    _ => None,
                };
                // "the remote side has produced" the signature: a node that authenticates a connection
                // under its OWN key has been handed back a signature it made itself (reflection)
                if proof.is_some() && k == honest_key[ni].0 {
                    v.push((
                        format!("C17|authenticated_by_reflection_of_own_signature|op={opname}"),
                        format!("step {step} ({opname}): node {ni} marked connection {idx} as connected under its own key: the signature it accepted is one it produced itself"),
                    ));
                    continue;
                }
                if let (Some(_), Some(ver)) = (&proof, &incompatible) {
                    v.push((
                        format!("C17|connected_with_incompatible_version|op={opname}"),
                        format!("step {step} ({opname}): node {ni} (core version 1.2.3) marked connection {idx} as connected on a response that states core version {ver}"),
                    ));
                }
                match proof {
                    Some(c) => {
                        accepted.insert((ni, idx, c));
                        if k == honest_key[1 - ni].0 {
                            if (ni, idx) == A_TO_B || (ni, idx) == B_FROM_A {
                                info.honest_completed += 1;
                            } else {
                                info.relay_observed += 1; // live relay of the very challenge: satisfies the statement's letter
                            }
                        } else if k == att.0 {
                            info.attacker_connected_as_self += 1;
                        }
                    }
                    None => {
                        let claimed = if k == att.0 { "attacker" } else if k == honest_key[1 - ni].0 { "honest_peer" } else { "other" };
                        v.push((
                            format!("C17|connected_without_fresh_valid_signature|as={claimed}|op={opname}"),
                            format!("step {step} ({opname}): node {ni} marked connection {idx} as connected under the key of {claimed} although no response carrying that key's signature over a fresh challenge issued on that connection was delivered"),
                        ));
                    }
                }
            }
            // a step that completed nothing on this node must not disturb its authenticated connections
            let completed_here = nodes[ni].io.st.events.lock().unwrap()[ev_before[ni]..].iter().any(|e| matches!(e, IfEvent::HandshakeComplete(_)));
            if !completed_here {
                if let Some((dn, di, _)) = &delivered {
                    if *dn == ni {
                        info.failed_attempts += 1;
                        for (idx, was) in &before[ni].0 {
                            if idx == di || was.status != 2 {
                                continue;
                            }
                            if after[ni].0.get(idx) != Some(was) {
                                v.push((format!("C17|failed_attempt_disturbs_authenticated_peer|op={opname}"), format!("step {step} ({opname}): a message on connection {di} of node {ni} changed the state of authenticated connection {idx}")));
                            }
                        }
                        for (k, idx) in &before[ni].1 {
                            if idx == di {
                                continue;
                            }
                            if after[ni].1.get(k) != Some(idx) {
                                v.push((format!("C17|failed_attempt_disturbs_key_index|op={opname}"), format!("step {step} ({opname}): a message on connection {di} of node {ni} changed the key->connection entry of connection {idx}")));
                            }
                        }
                    }
                }
            }
        }
        if !v.is_empty() {
            break;
        }
    }
    (v, info)
}

fn eval(c: &mut Ctx, case: &Case, counting: bool) -> Vec<(String, String)> {
    let (v, info) = run_case(case);
    if counting {
        c.evals(info.steps.max(1) as u64);
        if info.failed_attempts > 0 && (info.honest_completed > 0 || info.attacker_connected_as_self > 0) {
            c.nontrivial(&digest(case));
        }
        for (n, k) in [
            (info.honest_completed, "honest_handshake_sides_completed"),
            (info.attacker_connected_as_self, "attacker_authenticated_as_itself"),
            (info.relay_observed, "relay_observed(unflagged)"),
            (info.failed_attempts, "deliveries_without_completion"),
            (info.replays, "replays"),
            (info.disconnects, "connections_dropped"),
            (info.redirects, "redirected_messages"),
        ] {
            if n > 0 {
                *c.classes.entry(k.to_string()).or_insert(0) += n as u64;
            }
        }
        if info.honest_completed >= 2 && info.redirects > 0 {
            c.sample_class("x", json!({"case": case, "info": format!("{:?}", info)}));
        }
    }
    v
}

pub fn arb_op() -> impl Strategy<Value = Op> {
    prop_oneof![
        3 => (0u8..4).prop_map(Op::Connect),
        1 => (0u8..4).prop_map(Op::ConnectAgain),
        6 => (0u8..2).prop_map(Op::Deliver),
        1 => (0u8..2).prop_map(Op::Drop),
        1 => (0u8..2).prop_map(Op::Reorder),
        4 => (any::<u8>(), 0u8..5).prop_map(|(k, e)| Op::Replay { k, e }),
        4 => (0u8..5, 0u8..3, prop_oneof![4 => Just(0u8), 3 => 1u8..8], 0u8..2).prop_map(|(e, over, version, claim)| Op::AttackerResponse { e, over, version, claim }),
        2 => (0u8..5, 0u8..2).prop_map(|(e, which)| Op::AttackerChallenge { e, which }),
        1 => (0u8..5, 0u8..2).prop_map(|(e, tag)| Op::AttackerOther { e, tag }),
        2 => (0u8..4).prop_map(Op::Disconnect),
    ]
}

pub fn run(ctx: &mut Ctx) {
    ctx.rule = "two honest nodes built from the real routing threads (A connects to B) and an attacker with three connections of its own (two to B, one to A) who also sits on the honest link; generated sequences of 4..14 operations: connect, deliver in order, drop, reorder, replay any observed message to any endpoint (incl. redirect across connections and reflection), attacker responses signed with its own key over the right / another connection's / a random challenge with ok / unset / incompatible core version (other major, other minor, a minor/patch pair that collides under byte packing, extreme patch levels) claiming its own or the honest peer's key, attacker challenges (random, or another endpoint's challenge: signing-oracle attempt), unsolicited traffic, dropped connections that are dialled again under the same connection index, connection-established events that arrive a second time for an index that is still open (plus two directed families: the honest link drops at every point of the handshake, is re-dialled, and every message seen so far is replayed to either end; the attacker reflects a node's own first messages back to it on the attacker's connection; the attacker relays a challenge so that its connection is authenticated under the honest peer's key and merged with that peer's half-open re-dial, then delivers the answer to the old connection's counter-challenge on it). monitor (from the honest nodes' outgoing messages the harness knows which challenge each node issued on which connection): every handshake completion (interface event or status change to Connected under key K) must coincide with the delivery, on that connection, of a response whose signature verifies for K over a challenge issued by this node on this connection that was not accepted before, the response must state a core version of the node's own major.minor line, and K must not be the node's own key (a reflected signature was not produced by the remote side); a connection that has just come up is not Connected; a delivery that completes nothing leaves status, key and key->connection entry of every other authenticated connection unchanged. evaluations = operations. non-trivial = sequence with a completed handshake side and a delivery that completed nothing; distinct by case digest".into();
    ctx.assumptions.push("The attacker cannot forge signatures. A live relay of the very challenge (K signs, in its own handshake, the challenge the victim issued to the attacker) satisfies the statement's letter and is counted, not flagged.".into());
    // directed prefix: the honest handshake, in order, must complete on both sides
    let honest = Case { ops: vec![Op::Connect(0), Op::Deliver(1), Op::Deliver(0), Op::Deliver(1)] };
    let (v0, i0) = run_case(&honest);
    ctx.evals(i0.steps as u64);
    ctx.samples.push(json!({"sub": "honest_in_order", "case": honest, "info": format!("{:?}", i0)}));
    for (k, w) in v0 {
        ctx.violation(&k, w, json!({"check": "honest_in_order", "case": honest}));
    }
    if i0.honest_completed != 2 {
        ctx.violation("C17|honest_handshake_does_not_complete", format!("the undisturbed handshake completed on {} of 2 sides", i0.honest_completed), json!({"check": "honest_in_order", "case": honest}));
    }
    // directed: reflection. The attacker opens a connection, sends the node's own messages back to it
    // on that connection (its challenge, then whatever it answered), in every combination of the
    // first four / six observed messages
    for (conn, e) in [(1u8, 2u8), (2, 3)] {
        for k1 in 0..4u8 {
            for k2 in 0..6u8 {
                let case = Case { ops: vec![Op::Connect(conn), Op::Replay { k: k1, e }, Op::Replay { k: k2, e }, Op::Replay { k: k2.wrapping_add(1), e }] };
                for (key, w) in eval(ctx, &case, true) {
                    ctx.violation(&key, w, json!({"check": "reflection", "case": case}));
                }
            }
        }
    }
    // directed: relay and merge. The honest link is established, drops, and is being re-dialled (A has
    // a counter-challenge outstanding on it); meanwhile the attacker relays A's challenge on the
    // attacker's own connection to B (which signs every challenge it is sent), so that this
    // connection is authenticated under B's key and A merges its old entry for B into it; then the
    // re-dial is carried on and B's answer to the counter-challenge of the OLD connection is
    // delivered on the attacker's connection. Which observed messages are replayed is enumerated.
    {
        let prefix = vec![
            Op::Connect(0),
            Op::Deliver(1),
            Op::Deliver(0),
            Op::Deliver(1),
            Op::Disconnect(0),
            Op::Connect(0),
            Op::Deliver(1),
            Op::Connect(2),
            Op::Connect(1),
        ];
        for k5 in 4..12u8 {
            for k6 in 6..14u8 {
                for k8 in 8..16u8 {
                    let mut ops = prefix.clone();
                    ops.push(Op::Replay { k: k5, e: 2 }); // A's challenge for the attacker's connection -> B
                    ops.push(Op::Replay { k: k6, e: 3 }); // B's signature over it -> A, on the attacker's connection
                    ops.push(Op::Deliver(0)); // the re-dial goes on: A's response (with the old counter-challenge) -> B
                    ops.push(Op::Replay { k: k8, e: 3 }); // B's answer to it -> A, on the attacker's connection
                    let case = Case { ops };
                    for (key, w) in eval(ctx, &case, true) {
                        ctx.violation(&key, w, json!({"check": "relay_and_merge", "case": case}));
                    }
                }
            }
        }
    }
    // directed: the honest link drops after 0..3 steps of the handshake (optionally with the last
    // message withheld), is dialled again, and every message seen so far is replayed to either end of
    // the new connection, after which the handshake is carried on in order
    let honest_steps = [Op::Deliver(1), Op::Deliver(0), Op::Deliver(1)];
    let mut directed = 0u64;
    for cut in 0..=3usize {
        for withhold in [false, true] {
            for k in 0..8u8 {
                for e in 0..2u8 {
                    let mut ops = vec![Op::Connect(0)];
                    ops.extend_from_slice(&honest_steps[..cut]);
                    if withhold {
                        ops.push(Op::Drop(1));
                        ops.push(Op::Drop(0));
                    }
                    ops.push(Op::Disconnect(0));
                    ops.push(Op::Connect(0));
                    ops.push(Op::Replay { k, e });
                    ops.extend_from_slice(&honest_steps);
                    let case = Case { ops };
                    directed += 1;
                    for (key, w) in eval(ctx, &case, true) {
                        ctx.violation(&key, w, json!({"check": "reconnect_and_replay", "case": case}));
                    }
                }
            }
        }
    }
    ctx.extra.insert("directed_reconnect_and_replay_cases".into(), json!(directed));
    let strat = proptest::collection::vec(arb_op(), 4..15).prop_map(|mut ops| {
        // most sequences start by opening the honest link and an attacker link
        if ops.len() % 3 != 0 {
            ops.insert(0, Op::Connect(0));
            ops.insert(1, Op::Connect(1));
        }
        Case { ops }
    });
    let cases = ctx.tier.pick(12_000u32, 150_000);
    pbt_run(ctx, "attacker_sequences", cases, strat, |c, case, counting| eval(c, case, counting));
}

pub fn replay(ctx: &mut Ctx, v: &serde_json::Value) -> bool {
    let case: Case = match serde_json::from_value(v.get("case").cloned().unwrap_or(v.clone())) {
        Ok(c) => c,
        Err(_) => return false,
    };
    for (k, w) in eval(ctx, &case, true) {
        ctx.violation(&k, w, json!({"check": "replay", "case": case}));
    }
    true
}
