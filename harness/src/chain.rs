//! History specifications (pure data) and their interpreter: builds real signed blocks with the
//! repository's own producer on builder nodes that follow the branch being extended.

use std::collections::{BTreeMap, BTreeSet};

use proptest::prelude::*;
use saito_core::core::consensus::block::Block;
use saito_core::core::consensus::burnfee::BurnFee;
use saito_core::core::consensus::transaction::{Transaction, TransactionType};
use saito_core::core::defs::*;
use serde::{Deserialize, Serialize};

use crate::adversary::{apply_block_edit, edited_tx, force_accept, BlockEdit, EditCtx, TxEdit};
use crate::world::*;
use saito_core::core::consensus::slip::Slip;

#[derive(Debug, Clone, Serialize, Deserialize, PartialEq, Eq, Hash)]
pub struct TxSpec {
    pub payer: u8,
    pub payee: u8,
    /// fraction (x/65536) of the payer's spendable balance to send
    pub amount_sel: u16,
    /// absolute fee in nolan (clamped to what is left)
    pub fee: u64,
    /// intermediate routers between payer and creator (key indices); empty = no path at all when
    /// `with_path` is false
    pub routers: Vec<u8>,
    pub with_path: bool,
    pub max_inputs: u8,
    /// create an NFT (Bound transaction: [Bound, Normal, Bound] + change) instead of a plain payment
    #[serde(default)]
    pub nft: bool,
}

#[derive(Debug, Clone, Serialize, Deserialize, PartialEq, Eq, Hash)]
pub struct BlockSpec {
    /// None: extend the most recently built block. Some(sel): parent = built[sel*len>>16]
    pub parent: Option<u16>,
    /// ms after the parent's timestamp (>0)
    pub dt: u32,
    pub gt: bool,
    pub creator: u8,
    pub miner: u8,
    pub txs: Vec<TxSpec>,
    /// adversarial content: an invalid transaction (edit, attacker key, victim key) included by a
    /// producer that does not validate (header consistent with the invalid content)
    #[serde(default)]
    pub bad_tx: Option<(TxEdit, u8, u8)>,
    /// adversarial header lie applied after honest construction
    #[serde(default)]
    pub corrupt: Option<BlockEdit>,
    /// alternative parent choice: the block built `back`+1 positions before this one (0 = the
    /// most recently built block); overrides `parent` when set
    #[serde(default)]
    pub back: Option<u8>,
}

#[derive(Debug, Clone, Serialize, Deserialize, PartialEq, Eq, Hash)]
pub struct HistSpec {
    pub ncfg: NodeCfg,
    pub treasury: u64,
    pub issuance: Vec<(u8, u64)>,
    pub blocks: Vec<BlockSpec>,
    /// honest producers add a golden ticket whenever the 2-of-6 rule would otherwise fail
    pub gt_policy: bool,
}

#[derive(Debug, Clone, Default, Serialize)]
pub struct HistStats {
    pub blocks: usize,
    pub fee_txs: usize,
    pub atr_txs: usize,
    pub gt_blocks: usize,
    pub fee_payout_blocks: usize,
    pub path_txs: usize,
    pub forks: usize,
    pub max_height: u64,
    pub wraps: u64,
    pub truncated: bool,
}

pub struct Built {
    pub spec: HistSpec,
    /// blocks in creation order; index 0 is the genesis block
    pub blocks: Vec<Block>,
    pub parent: Vec<Option<usize>>,
    /// the builder node that produced (and accepted) the most recently built block
    pub node: Node,
    pub tips: BTreeMap<SaitoHash, Node>,
    pub truncated: bool,
    /// invalid[i]: block i is invalid by construction (adversarial edit that was not a no-op)
    pub invalid: Vec<Option<String>>,
    /// blocks the honest builder produced but its own node did not accept as the new tip
    /// (parent index, block, result) -- a C07 matter; never part of `blocks`
    pub rejected_own: Vec<(usize, Block, &'static str)>,
}

impl Built {
    pub fn index_of(&self, h: &SaitoHash) -> Option<usize> {
        self.blocks.iter().position(|b| &b.hash == h)
    }
    pub fn path_to(&self, mut i: usize) -> Vec<usize> {
        let mut p = vec![i];
        while let Some(q) = self.parent[i] {
            p.push(q);
            i = q;
        }
        p.reverse();
        p
    }
    /// Blocks on the chain of the last built block, genesis first.
    pub fn main_chain_blocks(&self) -> Vec<Block> {
        self.path_to(self.blocks.len() - 1)
            .into_iter()
            .map(|i| self.blocks[i].clone())
            .collect()
    }
    /// The builder node that follows the most recently built block.
    pub fn node_ref(&self) -> &Node {
        &self.node
    }
    pub fn stats(&self) -> HistStats {
        let mut s = HistStats::default();
        s.blocks = self.blocks.len();
        s.truncated = self.truncated;
        let mut children: BTreeMap<usize, usize> = BTreeMap::new();
        for (i, b) in self.blocks.iter().enumerate() {
            if let Some(p) = self.parent[i] {
                *children.entry(p).or_insert(0) += 1;
            }
            s.max_height = s.max_height.max(b.id);
            if b.has_golden_ticket {
                s.gt_blocks += 1;
            }
            if b.has_fee_transaction {
                s.fee_payout_blocks += 1;
            }
            for t in &b.transactions {
                match t.transaction_type {
                    TransactionType::Normal if t.total_fees > 0 => s.fee_txs += 1,
                    TransactionType::ATR => s.atr_txs += 1,
                    _ => {}
                }
                if t.transaction_type == TransactionType::Normal && !t.path.is_empty() {
                    s.path_txs += 1;
                }
            }
        }
        s.forks = children.values().filter(|c| **c > 1).count();
        s.wraps = s.max_height / (self.spec.ncfg.gp + 1);
        s
    }
}

/// Number of golden tickets among the last `n` ancestors starting at `from` (inclusive).
fn gts_in_last(blocks: &[Block], parent: &[Option<usize>], from: usize, n: usize) -> (usize, usize) {
    let mut c = 0;
    let mut depth = 0;
    let mut cur = Some(from);
    while let Some(i) = cur {
        if depth >= n {
            break;
        }
        if blocks[i].has_golden_ticket {
            c += 1;
        }
        depth += 1;
        cur = parent[i];
    }
    (c, depth)
}

/// The node's rule as documented in the property: at least 2 golden tickets among the block and
/// its 5 ancestors once 5 ancestors exist; at least 1 when exactly 4 ancestors exist (start-up).
pub fn density_violated(blocks: &[Block], parent: &[Option<usize>], pidx: usize, has_gt: bool) -> bool {
    let (c, depth) = gts_in_last(blocks, parent, pidx, 5);
    let total = c + if has_gt { 1 } else { 0 };
    if depth >= 5 {
        total < 2
    } else if depth == 4 {
        total < 1
    } else {
        false
    }
}

pub async fn replay_into(
    node: &mut Node,
    blocks: &[Block],
    parent: &[Option<usize>],
    invalid: &[Option<String>],
    tip: usize,
) {
    let mut path = vec![tip];
    let mut i = tip;
    while let Some(p) = parent[i] {
        path.push(p);
        i = p;
    }
    path.reverse();
    for i in path {
        if invalid.get(i).map(|x| x.is_some()).unwrap_or(false) {
            force_accept(node, &blocks[i]).await;
            continue;
        }
        let ok = matches!(node.add_guarded(blocks[i].clone()).await.as_ref().map(res_str), Some("added_lc"));
        if !ok && node.chain.get_latest_block_hash() == blocks[i].previous_block_hash {
            // individually valid block whose chain is not adoptable here (golden-ticket density)
            force_accept(node, &blocks[i]).await;
        }
    }
}

/// Plan the transactions of one block against the builder's current ledger.
pub fn plan_txs(node: &Node, bs: &BlockSpec, block_id: u64, ts: u64) -> Vec<Transaction> {
    let mut reserved: BTreeSet<SaitoUTXOSetKey> = BTreeSet::new();
    let mut txs = vec![];
    for (n, t) in bs.txs.iter().enumerate() {
        let payer = key(t.payer);
        let bal: u128 = node
            .spendable_of(&payer.0, block_id)
            .iter()
            .filter(|s| !reserved.contains(&s.utxoset_key))
            .map(|s| s.amount as u128)
            .sum();
        if bal == 0 {
            continue;
        }
        let bal = bal.min(u64::MAX as u128) as u64;
        let fee = t.fee.min(bal);
        let amount = (((bal - fee) as u128 * t.amount_sel as u128) >> 16) as u64;
        let plan = TxPlan {
            payer: t.payer,
            payee: t.payee,
            amount,
            fee,
            max_inputs: t.max_inputs as usize,
            ts: ts + n as u64,
        };
        let built_tx = if t.nft { build_honest_nft_tx(node, &plan, block_id, &mut reserved) } else { build_honest_tx(node, &plan, block_id, &mut reserved) };
        if let Some(mut tx) = built_tx {
            if t.with_path {
                let mut path = vec![t.payer];
                for r in &t.routers {
                    if *path.last().unwrap() != *r {
                        path.push(*r);
                    }
                }
                if *path.last().unwrap() != bs.creator {
                    path.push(bs.creator);
                }
                if path.len() >= 2 {
                    add_path(&mut tx, &path);
                    tx.generate(&key(bs.creator).0, 0, 0);
                }
            }
            txs.push(tx);
        }
    }
    txs
}

/// Build one honest block on `parent_hash` using `node` (whose longest chain ends at the parent).
/// Returns None if a required golden ticket is too expensive to mine (history gets truncated).
/// Outputs spent earlier on the node's current longest chain / outputs older than the window that
/// still sit in the utxoset (material for the SpentInput / ExpiredInput edits).
pub fn spent_and_expired(node: &Node, for_block_id: u64) -> (Vec<Slip>, Vec<Slip>) {
    let mut spent = vec![];
    let mut h = node.chain.get_latest_block_hash();
    while let Some(b) = node.chain.blocks.get(&h) {
        for t in &b.transactions {
            if t.transaction_type == TransactionType::Normal {
                for s in &t.from {
                    if s.amount > 0 {
                        spent.push(s.clone());
                    }
                }
            }
        }
        h = b.previous_block_hash;
        if spent.len() > 4 {
            break;
        }
    }
    let mut expired: Vec<Slip> = node
        .chain
        .utxoset
        .iter()
        .filter(|(_, v)| **v)
        .filter_map(|(k, _)| Slip::parse_slip_from_utxokey(k).ok())
        .filter(|s| s.amount > 0 && s.block_id + node.ncfg.gp < for_block_id)
        .filter(|s| (0u8..8).any(|i| key(i).0 == s.public_key))
        .collect();
    // the ones that left the window most recently first (the block at the window edge)
    expired.sort_by(|a, b| b.block_id.cmp(&a.block_id).then(a.utxoset_key.cmp(&b.utxoset_key)));
    (spent, expired)
}

pub async fn build_block(
    node: &Node,
    parent_hash: SaitoHash,
    bs: &BlockSpec,
    want_gt: bool,
    salt: u64,
) -> Option<Block> {
    build_block_ex(node, parent_hash, bs, want_gt, salt).await.map(|x| x.0)
}

/// Returns (block, Some(reason) if invalid by construction).
pub async fn build_block_ex(
    node: &Node,
    parent_hash: SaitoHash,
    bs: &BlockSpec,
    want_gt: bool,
    salt: u64,
) -> Option<(Block, Option<String>)> {
    if bs.bad_tx.is_none() && bs.corrupt.is_none() {
        return build_block_honest(node, parent_hash, bs, want_gt, salt).await.map(|b| (b, None));
    }
    let pb = node.chain.get_block(&parent_hash)?;
    let (pts, pid, pdiff) = (pb.timestamp, pb.id, pb.difficulty);
    let hb = node.ncfg.heartbeat;
    // adversarial producers use dt >= 2*heartbeat so that routing work is never the reason
    let ts = pts + (bs.dt as u64).max(2 * hb);
    let creator = key(bs.creator);
    let gt = if want_gt { Some(node.mine_gt(parent_hash, &key(bs.miner), salt).await?) } else { None };
    let mut txs = plan_txs(node, bs, pid + 1, ts);
    let mut reason: Option<String> = None;
    if let Some((edit, att, vic)) = bs.bad_tx {
        // attacker and victim must be different keys, else some edits are no-ops
        let vic = if vic == att { (att + 1) % 4 } else { vic };
        let (spent, expired) = spent_and_expired(node, pid + 1);
        let ctx = EditCtx { node, attacker: att, victim: vic, for_block_id: pid + 1, ts: ts + 77, spent: &spent, expired: &expired, offchain: &[] };
        if edit == TxEdit::TwiceInBlock {
            // two individually valid spends of one output: Block::create refuses to build that, so the
            // block is built with the first spend and the second one is inserted by hand
            let second = edited_tx(edit, &ctx)?;
            let s0 = second.from[0].clone();
            let first = tx_from_inputs(vec![s0.clone()], vec![(key(att).0, s0.amount)], &key(att), ts + 76, vec![]);
            let k0 = s0.get_utxoset_key();
            txs.retain(|t| !t.from.iter().any(|s| s.amount > 0 && s.get_utxoset_key() == k0));
            txs.push(first);
            let mut b = node.make_block_as(&creator, parent_hash, ts, txs, gt).await.ok()?;
            b.transactions.push(second);
            re_sign(&mut b, &creator, true);
            return Some((b, Some("tx:TwiceInBlock".into())));
        }
        if let Some(bad) = edited_tx(edit, &ctx) {
            // keep honest txs that do not collide with the bad one's inputs
            let bad_inputs: BTreeSet<SaitoUTXOSetKey> = bad.from.iter().filter(|s| s.amount > 0).map(|s| s.get_utxoset_key()).collect();
            txs.retain(|t| !t.from.iter().any(|s| s.amount > 0 && bad_inputs.contains(&s.get_utxoset_key())));
            txs.push(bad);
            reason = Some(format!("tx:{:?}", edit));
        }
    }
    if txs.is_empty() && gt.is_none() {
        txs.push(carrier_tx(&creator, ts));
    }
    let mut b = match node.make_block_as(&creator, parent_hash, ts, txs, gt).await {
        Ok(b) => b,
        Err(_) => return None, // producer refused (e.g. in-block double spend detected at create)
    };
    if let Some(e) = bs.corrupt {
        if apply_block_edit(&mut b, e, &creator, pdiff) {
            reason = Some(match reason {
                Some(r) => format!("{r}+hdr:{:?}", e),
                None => format!("hdr:{:?}", e),
            });
        }
    }
    Some((b, reason))
}

pub async fn build_block_honest(
    node: &Node,
    parent_hash: SaitoHash,
    bs: &BlockSpec,
    want_gt: bool,
    salt: u64,
) -> Option<Block> {
    let pb = node.chain.get_block(&parent_hash)?;
    let (pts, pbf, pid) = (pb.timestamp, pb.burnfee, pb.id);
    let hb = node.ncfg.heartbeat;
    let mut dt = bs.dt.max(1) as u64;
    let creator = key(bs.creator);
    let gt = if want_gt {
        Some(node.mine_gt(parent_hash, &key(bs.miner), salt).await?)
    } else {
        None
    };
    for _attempt in 0..2 {
        let ts = pts + dt;
        let mut txs = plan_txs(node, bs, pid + 1, ts);
        if txs.is_empty() && gt.is_none() {
            txs.push(carrier_tx(&creator, ts));
        }
        let b = node.make_block_as(&creator, parent_hash, ts, txs, gt.clone()).await.ok()?;
        let needed = BurnFee::return_routing_work_needed_to_produce_block_in_nolan(pbf, ts, pts, hb);
        if b.total_work >= needed {
            return Some(b);
        }
        dt = 2 * hb;
    }
    None
}

pub async fn build_history(spec: &HistSpec) -> Built {
    let mut first = Node::new(spec.ncfg, 0);
    let g = first.genesis(&spec.issuance, spec.treasury).await;
    let r = first.add(g.clone()).await;
    assert_eq!(res_str(&r), "added_lc", "genesis must be accepted");
    let mut blocks = vec![g.clone()];
    let mut parent: Vec<Option<usize>> = vec![None];
    let mut tips: BTreeMap<SaitoHash, Node> = BTreeMap::new();
    tips.insert(g.hash, first);
    let mut last_hash = g.hash;
    let mut truncated = false;
    let mut rejected_own = vec![];
    let mut invalid: Vec<Option<String>> = vec![None];

    for (n, bs) in spec.blocks.iter().enumerate() {
        let pidx = match (bs.back, bs.parent) {
            (Some(k), _) => blocks.len().saturating_sub(1 + k as usize),
            (None, None) => blocks.len() - 1,
            (None, Some(sel)) => (sel as usize * blocks.len()) >> 16,
        };
        let phash = blocks[pidx].hash;
        let mut node = match tips.remove(&phash) {
            Some(n) => n,
            None => {
                let mut nn = Node::new(spec.ncfg, 0);
                replay_into(&mut nn, &blocks, &parent, &invalid, pidx).await;
                nn
            }
        };
        if node.chain.get_latest_block_hash() != phash {
            // replay did not end on the parent (e.g. branch not adoptable): stop here
            tips.insert(node.chain.get_latest_block_hash(), node);
            truncated = true;
            break;
        }
        let want_gt = if spec.gt_policy {
            let (c, _d) = gts_in_last(&blocks, &parent, pidx, 4);
            bs.gt || c < 2
        } else {
            bs.gt
        };
        let (b, why_invalid) = match build_block_ex(&node, phash, bs, want_gt, n as u64 + 1).await {
            Some(b) => b,
            None => {
                tips.insert(phash, node);
                truncated = true;
                break;
            }
        };
        if why_invalid.is_some() {
            // invalid by construction: never offered to the builder's validator; the builder is made
            // to treat it as accepted so that honest-looking children can be built on top of it.
            // The parent's own builder is recreated on demand (replay) if it is extended again.
            force_accept(&mut node, &b).await;
            blocks.push(b.clone());
            parent.push(Some(pidx));
            invalid.push(why_invalid);
            last_hash = b.hash;
            tips.insert(b.hash, node);
            continue;
        }
        let rs = match node.add_guarded(b.clone()).await {
            Some(r) => res_str(&r),
            None => {
                // honest block, honest ancestors only: the builder itself is the code under test
                let mut tainted = false;
                let mut a = Some(pidx);
                while let Some(i) = a {
                    if invalid[i].is_some() {
                        tainted = true;
                        break;
                    }
                    a = parent[i];
                }
                if !tainted {
                    crate::ctx::note_builder_abort();
                }
                "panicked"
            }
        };
        if rs == "added_lc" {
            blocks.push(b.clone());
            parent.push(Some(pidx));
            invalid.push(None);
            last_hash = b.hash;
            tips.insert(b.hash, node);
        } else if rs == "invalid" && !spec.gt_policy && density_violated(&blocks, &parent, pidx, b.has_golden_ticket) {
            // the block itself is fine; its chain is not adoptable at this height because of the
            // golden-ticket density rule. Keep building on it (C05 needs such side chains).
            force_accept(&mut node, &b).await;
            blocks.push(b.clone());
            parent.push(Some(pidx));
            invalid.push(None);
            last_hash = b.hash;
            tips.insert(b.hash, node);
            continue;
        } else {
            rejected_own.push((pidx, b.clone(), rs));
            // builder itself rejected its own block: keep the block (C07 looks at this), but the
            // builder is no longer usable for extending it.
            tips.insert(phash, node);
            truncated = true;
            break;
        }
    }
    let node = match tips.remove(&last_hash) {
        Some(n) => n,
        None => {
            let mut nn = Node::new(spec.ncfg, 0);
            let idx = blocks.iter().position(|b| b.hash == last_hash).unwrap_or(0);
            replay_into(&mut nn, &blocks, &parent, &invalid, idx).await;
            nn
        }
    };
    Built {
        spec: spec.clone(),
        blocks,
        parent,
        node,
        tips,
        truncated,
        invalid,
        rejected_own,
    }
}

// ---------------------------------------------------------------------------
// Generators
// ---------------------------------------------------------------------------

pub fn arb_ncfg() -> impl Strategy<Value = NodeCfg> {
    (
        prop_oneof![2 => Just(4u64), 2 => Just(5u64), 3 => Just(6u64), 2 => Just(8u64), 1 => Just(12u64), 2 => Just(100u64)],
        Just(100u64),
        any::<bool>(),
        prop_oneof![2 => Just(2u64), 1 => Just(3u64), 3 => Just(8u64)],
    )
        .prop_map(|(gp, heartbeat, loading_completed, prune)| NodeCfg {
            gp,
            heartbeat,
            social_stake: 0,
            loading_completed,
            prune,
        })
}

pub fn arb_txspec() -> impl Strategy<Value = TxSpec> {
    (
        0u8..4,
        0u8..4,
        any::<u16>(),
        prop_oneof![2 => Just(0u64), 4 => 1u64..5_000, 2 => 5_000u64..2_000_000, 1 => 2_000_000u64..400_000_000],
        proptest::collection::vec(0u8..5, 0..3),
        any::<bool>(),
        1u8..4,
        prop_oneof![9 => Just(false), 1 => Just(true)],
    )
        .prop_map(|(payer, payee, amount_sel, fee, routers, with_path, max_inputs, nft)| TxSpec {
            payer,
            payee,
            amount_sel,
            fee,
            routers,
            with_path,
            max_inputs,
            nft,
        })
}

pub fn arb_blockspec(fork: bool) -> impl Strategy<Value = BlockSpec> {
    (
        if fork {
            prop_oneof![4 => Just(None), 1 => any::<u16>().prop_map(Some)].boxed()
        } else {
            Just(None).boxed()
        },
        prop_oneof![3 => 200u32..400, 2 => 20u32..200, 1 => 400u32..3000],
        prop_oneof![2 => Just(false), 1 => Just(true)],
        0u8..3,
        0u8..4,
        proptest::collection::vec(arb_txspec(), 0..4),
    )
        .prop_map(|(parent, dt, gt, creator, miner, txs)| BlockSpec {
            parent,
            dt,
            gt,
            creator,
            miner,
            txs,
            bad_tx: None,
            corrupt: None, back: None,
        })
}

pub fn arb_issuance() -> impl Strategy<Value = Vec<(u8, u64)>> {
    proptest::collection::vec(
        (
            0u8..4,
            prop_oneof![
                3 => 1_000_000u64..10_000_000_000,
                1 => 1u64..1000,
                1 => Just(1u64 << 40),
                1 => Just((1u64 << 58) + 12345),
            ],
        ),
        2..7,
    )
}

/// Honest linear histories (no forks) of up to `max_blocks` blocks.
pub fn arb_honest_hist(max_blocks: usize) -> impl Strategy<Value = HistSpec> {
    (
        arb_ncfg(),
        prop_oneof![2 => Just(0u64), 1 => 1_000_000u64..1_000_000_000_000u64],
        arb_issuance(),
        proptest::collection::vec(arb_blockspec(false), 1..max_blocks),
    )
        .prop_map(|(ncfg, treasury, issuance, blocks)| HistSpec {
            ncfg,
            treasury,
            issuance,
            blocks,
            gt_policy: true,
        })
}

/// Honest histories with forks (side branches built by honest producers too).
pub fn arb_forked_hist(max_blocks: usize) -> impl Strategy<Value = HistSpec> {
    (
        arb_ncfg(),
        prop_oneof![2 => Just(0u64), 1 => 1_000_000u64..1_000_000_000_000u64],
        arb_issuance(),
        proptest::collection::vec(arb_blockspec(true), 1..max_blocks),
    )
        .prop_map(|(ncfg, treasury, issuance, blocks)| HistSpec {
            ncfg,
            treasury,
            issuance,
            blocks,
            gt_policy: true,
        })
}
