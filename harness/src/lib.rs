pub mod alloc;
pub mod chain;
pub mod ctx;
pub mod gen;
pub mod props;
pub mod world;
