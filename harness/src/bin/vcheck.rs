#[global_allocator]
static GLOBAL: saito_verif::alloc::Counting = saito_verif::alloc::Counting;

use saito_verif::ctx::{install_panic_hook, Ctx, Tier};
use saito_verif::props;

fn usage() -> ! {
    eprintln!("usage: vcheck run <ID> [--tier quick|thorough] [--seed N]\n       vcheck replay <ID> <file>");
    std::process::exit(2);
}

fn main() {
    let args: Vec<String> = std::env::args().collect();
    if args.len() < 3 {
        usage();
    }
    install_panic_hook();
    saito_verif::ctx::install_logger();
    let mode = args[1].as_str();
    let id = args[2].clone();
    let mut tier = match std::env::var("VERIF_TIER").as_deref() {
        Ok("thorough") => Tier::Thorough,
        _ => Tier::Quick,
    };
    let mut seed: u64 = std::env::var("VERIF_SEED").ok().and_then(|s| s.parse().ok()).unwrap_or(1);
    let mut i = 3;
    let mut file: Option<String> = None;
    while i < args.len() {
        match args[i].as_str() {
            "--tier" => {
                i += 1;
                tier = if args.get(i).map(|s| s.as_str()) == Some("thorough") { Tier::Thorough } else { Tier::Quick };
            }
            "--seed" => {
                i += 1;
                seed = args.get(i).and_then(|s| s.parse().ok()).unwrap_or(1);
            }
            other => file = Some(other.to_string()),
        }
        i += 1;
    }
    match mode {
        "run" => {
            let mut ctx = Ctx::new(&id, tier, seed, props::level_of(&id));
            if !props::run(&id, &mut ctx) {
                eprintln!("unknown property {id}");
                std::process::exit(2);
            }
            std::process::exit(ctx.finish());
        }
        "replay" => {
            let f = file.unwrap_or_else(|| usage());
            let mut ctx = Ctx::new(&id, tier, seed, props::level_of(&id));
            ctx.strict = true;
            std::env::set_var("VERIF_NO_EVIDENCE", "1");
            std::env::set_var("VERIF_REPLAY_FILE", &f);
            if !props::replay(&id, &mut ctx, &f) {
                eprintln!("replay not supported for {id}");
                std::process::exit(2);
            }
            std::process::exit(ctx.finish());
        }
        "hist" => {
            // debug aid: interpret a history spec (a replay file's case) and print per-block results
            let f = file.unwrap_or_else(|| usage());
            let v: serde_json::Value = serde_json::from_str(&std::fs::read_to_string(&f).unwrap()).unwrap();
            let case = v.pointer("/replay/case").cloned().unwrap_or(v);
            let case = case.get("hist").cloned().unwrap_or(case);
            let spec: saito_verif::chain::HistSpec = serde_json::from_value(case).unwrap();
            saito_verif::ctx::block_on(async {
                let built = saito_verif::chain::build_history(&spec).await;
                let mut n = saito_verif::world::Node::new(spec.ncfg, 0);
                for (i, b) in built.blocks.iter().enumerate() {
                    let r = n.add(b.clone()).await;
                    println!("block idx {} id {} parent {:?} txs {} gt {} ft {} -> {} | treasury {} graveyard {} fees {} unpaid {} payout_atr {} avg_rebroadcast {} supply {:?}", i, b.id, built.parent[i], b.transactions.len(), b.has_golden_ticket, b.has_fee_transaction, saito_verif::world::res_str(&r), b.treasury, b.graveyard, b.total_fees, b.previous_block_unpaid, b.total_payout_atr, b.avg_nolan_rebroadcast_per_block, saito_verif::refmodel::impl_supply_u128(&n.chain, spec.ncfg.gp));
                }
                for (pi, b, why) in built.rejected_own.iter() {
                    println!("builder-rejected block on parent idx {} id {} ({}): txs {:?} treasury {} payout_atr {} fees_atr {} fees_new {} graveyard {}", pi, b.id, why,
                        b.transactions.iter().map(|t| (saito_verif::world::tx_type_name(t.transaction_type), t.total_in, t.total_out)).collect::<Vec<_>>(), b.treasury, b.total_payout_atr, b.total_fees_atr, b.total_fees_new, b.graveyard);
                    let r = saito_verif::deliver::guarded_add(&mut n, b.clone(), 1000);
                    println!("  -> {:?}", r.0);
                }
                println!("supply(u128 over impl utxoset) = {:?}", saito_verif::refmodel::impl_supply_u128(&n.chain, spec.ncfg.gp));
                println!("truncated={} stats={:?}", built.truncated, built.stats());
            });
        }
        _ => usage(),
    }
}
