//! Reference oracles written from the property statements (not from the implementation):
//! RefLedger (UTXO replay with u128 arithmetic and per-input assertions) and observers that read
//! the implementation's public state.

use std::collections::{BTreeMap, BTreeSet};

use saito_core::core::consensus::block::Block;
use saito_core::core::consensus::blockchain::Blockchain;
use saito_core::core::consensus::slip::{Slip, SlipType};
use saito_core::core::consensus::transaction::{Transaction, TransactionType};
use saito_core::core::defs::*;
use saito_core::core::util::crypto::verify_signature;

pub type UKey = Vec<u8>;

#[derive(Debug, Clone, PartialEq, Eq)]
pub struct RefEntry {
    pub owner: SaitoPublicKey,
    pub amount: u64,
    pub block_id: u64,
    pub tx_ordinal: u64,
    pub slip_index: u8,
    pub slip_type: u8,
}

pub fn type_code(t: SlipType) -> u8 {
    match t {
        SlipType::Normal => 0,
        SlipType::ATR => 1,
        SlipType::VipInput => 2,
        SlipType::VipOutput => 3,
        SlipType::MinerInput => 4,
        SlipType::MinerOutput => 5,
        SlipType::RouterInput => 6,
        SlipType::RouterOutput => 7,
        SlipType::BlockStake => 8,
        SlipType::Bound => 9,
    }
}

/// The documented key layout: owner(33) | block id(8) | tx ordinal(8) | slip index(1) | amount(8) | type(1)
pub fn ukey(owner: &SaitoPublicKey, block_id: u64, tx_ordinal: u64, slip_index: u8, amount: u64, t: u8) -> UKey {
    let mut k = Vec::with_capacity(59);
    k.extend_from_slice(owner);
    k.extend_from_slice(&block_id.to_be_bytes());
    k.extend_from_slice(&tx_ordinal.to_be_bytes());
    k.push(slip_index);
    k.extend_from_slice(&amount.to_be_bytes());
    k.push(t);
    k
}
pub fn ukey_of_slip(s: &Slip) -> UKey {
    ukey(&s.public_key, s.block_id, s.tx_ordinal, s.slip_index, s.amount, type_code(s.slip_type))
}

#[derive(Debug, Clone, PartialEq, Eq, Hash)]
pub enum RefIssue {
    MissingInput { block: u64, tx: usize, input: usize },
    ExpiredInput { block: u64, tx: usize, input: usize, created: u64 },
    ForeignInput { block: u64, tx: usize, input: usize },
    DoubleSpendInTx { block: u64, tx: usize, input: usize },
    DoubleSpendInBlock { block: u64, tx: usize, input: usize },
    Overspend { block: u64, tx: usize },
    BadSignature { block: u64, tx: usize },
    IssuanceAfterGenesis { block: u64, tx: usize },
    PrivilegedWithInputsOrMint { block: u64, tx: usize, kind: &'static str },
}
impl RefIssue {
    pub fn kind(&self) -> &'static str {
        match self {
            RefIssue::MissingInput { .. } => "missing_input",
            RefIssue::ExpiredInput { .. } => "expired_input",
            RefIssue::ForeignInput { .. } => "foreign_input",
            RefIssue::DoubleSpendInTx { .. } => "double_spend_in_tx",
            RefIssue::DoubleSpendInBlock { .. } => "double_spend_in_block",
            RefIssue::Overspend { .. } => "overspend",
            RefIssue::BadSignature { .. } => "bad_signature",
            RefIssue::IssuanceAfterGenesis { .. } => "issuance_after_genesis",
            RefIssue::PrivilegedWithInputsOrMint { .. } => "privileged_type",
        }
    }
}

fn is_user_type(t: TransactionType) -> bool {
    matches!(
        t,
        TransactionType::Normal | TransactionType::Bound | TransactionType::BlockStake | TransactionType::GoldenTicket | TransactionType::Vip
    )
}

#[derive(Debug, Clone, Default)]
pub struct RefLedger {
    pub utxo: BTreeMap<UKey, RefEntry>,
    pub gp: u64,
    pub tip_id: u64,
}

impl RefLedger {
    pub fn new(gp: u64) -> RefLedger {
        RefLedger {
            utxo: BTreeMap::new(),
            gp,
            tip_id: 0,
        }
    }

    /// An output created in block `c` may be spent by blocks with id <= c + gp (it is handled by
    /// the rebroadcast of block c + gp + 1).
    pub fn in_window(&self, created: u64, spending_block: u64) -> bool {
        spending_block <= created + self.gp
    }

    /// Judge one user transaction against the current ledger (before applying it).
    /// `spent_in_block`: value inputs already consumed by earlier transactions of the same block.
    pub fn judge_tx(
        &self,
        tx: &Transaction,
        block_id: u64,
        tx_idx: usize,
        spent_in_block: &BTreeSet<UKey>,
    ) -> Vec<RefIssue> {
        let mut issues = vec![];
        if !is_user_type(tx.transaction_type) {
            return issues;
        }
        // authorisation: signed by the owner of from[0]
        let signer = tx.from.first().map(|s| s.public_key);
        let sig_ok = match (signer, tx.hash_for_signature) {
            (Some(pk), Some(h)) => verify_signature(&h, &tx.signature, &pk),
            _ => false,
        };
        if !sig_ok {
            issues.push(RefIssue::BadSignature { block: block_id, tx: tx_idx });
        }
        let mut seen: BTreeSet<UKey> = BTreeSet::new();
        let mut total_in: u128 = 0;
        for (i, s) in tx.from.iter().enumerate() {
            if s.slip_type == SlipType::Bound {
                continue;
            }
            if s.amount == 0 {
                continue;
            }
            total_in += s.amount as u128;
            let k = ukey_of_slip(s);
            if !seen.insert(k.clone()) {
                issues.push(RefIssue::DoubleSpendInTx { block: block_id, tx: tx_idx, input: i });
                continue;
            }
            if spent_in_block.contains(&k) {
                issues.push(RefIssue::DoubleSpendInBlock { block: block_id, tx: tx_idx, input: i });
                continue;
            }
            match self.utxo.get(&k) {
                None => issues.push(RefIssue::MissingInput { block: block_id, tx: tx_idx, input: i }),
                Some(e) => {
                    if !self.in_window(e.block_id, block_id) {
                        issues.push(RefIssue::ExpiredInput {
                            block: block_id,
                            tx: tx_idx,
                            input: i,
                            created: e.block_id,
                        });
                    }
                    if Some(e.owner) != signer {
                        issues.push(RefIssue::ForeignInput { block: block_id, tx: tx_idx, input: i });
                    }
                }
            }
        }
        let total_out: u128 = tx
            .to
            .iter()
            .filter(|s| s.slip_type != SlipType::Bound)
            .map(|s| s.amount as u128)
            .sum();
        if total_out > total_in {
            issues.push(RefIssue::Overspend { block: block_id, tx: tx_idx });
        }
        issues
    }

    /// Apply a block's transactions in order. Returns the issues a user transaction of the block
    /// has against the ledger as it stood before that transaction (empty for an honest block).
    pub fn apply_block(&mut self, b: &Block) -> Vec<RefIssue> {
        let mut issues = vec![];
        let mut spent_in_block: BTreeSet<UKey> = BTreeSet::new();
        let mut tx_ordinal: u64 = 0;
        for (ti, tx) in b.transactions.iter().enumerate() {
            issues.extend(self.judge_tx(tx, b.id, ti, &spent_in_block));
            if tx.transaction_type == TransactionType::Issuance && b.id > 1 {
                issues.push(RefIssue::IssuanceAfterGenesis { block: b.id, tx: ti });
            }
            for s in tx.from.iter() {
                if s.amount == 0 {
                    continue;
                }
                let k = ukey_of_slip(s);
                self.utxo.remove(&k);
                if s.slip_type != SlipType::Bound {
                    spent_in_block.insert(k);
                }
            }
            for (si, s) in tx.to.iter().enumerate() {
                if s.amount == 0 {
                    continue;
                }
                let k = ukey(&s.public_key, b.id, tx_ordinal, si as u8, s.amount, type_code(s.slip_type));
                self.utxo.insert(
                    k,
                    RefEntry {
                        owner: s.public_key,
                        amount: s.amount,
                        block_id: b.id,
                        tx_ordinal,
                        slip_index: si as u8,
                        slip_type: type_code(s.slip_type),
                    },
                );
            }
            if tx.transaction_type == TransactionType::SPV {
                tx_ordinal += tx.txs_replacements as u64;
            } else {
                tx_ordinal += 1;
            }
        }
        self.tip_id = b.id;
        issues
    }

    pub fn replay(gp: u64, chain: &[&Block]) -> (RefLedger, Vec<RefIssue>) {
        let mut l = RefLedger::new(gp);
        let mut issues = vec![];
        for b in chain {
            issues.extend(l.apply_block(b));
        }
        (l, issues)
    }

    /// Sum of spendable, in-window, non-bound outputs (u128).
    pub fn spendable_sum(&self) -> u128 {
        self.utxo
            .values()
            .filter(|e| e.slip_type != 9)
            .filter(|e| self.in_window(e.block_id, self.tip_id))
            .map(|e| e.amount as u128)
            .sum()
    }
}

// ---------------------------------------------------------------------------
// Observers of the implementation's public state
// ---------------------------------------------------------------------------

/// Ancestor path (genesis first) of the reported tip through the stored blocks.
pub fn tip_path(chain: &Blockchain) -> Vec<SaitoHash> {
    let mut v = vec![];
    let mut h = chain.get_latest_block_hash();
    let mut guard = 0;
    while h != [0; 32] {
        match chain.blocks.get(&h) {
            Some(b) => {
                v.push(h);
                h = b.previous_block_hash;
            }
            None => break,
        }
        guard += 1;
        if guard > 100_000 {
            break;
        }
    }
    v.reverse();
    v
}

/// Sorted list of (key, flag) of the implementation's utxoset.
pub fn impl_utxo(chain: &Blockchain) -> BTreeMap<UKey, bool> {
    chain.utxoset.iter().map(|(k, v)| (k.to_vec(), *v)).collect()
}

/// Supply as the statement defines it, computed over the *implementation's* utxoset in u128.
pub fn impl_supply_u128(chain: &Blockchain, gp: u64) -> Option<u128> {
    let tip = chain.get_latest_block()?;
    let mut s: u128 = 0;
    for (k, v) in chain.utxoset.iter() {
        if !*v {
            continue;
        }
        if let Ok(slip) = Slip::parse_slip_from_utxokey(k) {
            if slip.slip_type == SlipType::Bound {
                continue;
            }
            if tip.id > slip.block_id + gp {
                continue;
            }
            s += slip.amount as u128;
        }
    }
    s += tip.treasury as u128;
    s += tip.graveyard as u128;
    s += tip.previous_block_unpaid as u128;
    s += tip.total_fees as u128;
    Some(s)
}
