//! ChainWorld: an in-memory node (wallet + blockchain + mempool + storage) with
//! its own InterfaceIO, configuration, deterministic key ring, miner and honest
//! block/transaction builders.  Nothing in here is an oracle; see refmodel.rs.

use std::collections::{BTreeMap, VecDeque};
use std::io::{Error, ErrorKind};
use std::sync::{Arc, Mutex};

use ahash::{AHashMap, RandomState};
use async_trait::async_trait;
use saito_core::core::consensus::block::Block;
use saito_core::core::consensus::blockchain::{AddBlockResult, Blockchain};
use saito_core::core::consensus::golden_ticket::GoldenTicket;
use saito_core::core::consensus::mempool::Mempool;
use saito_core::core::consensus::peers::peer_service::PeerService;
use saito_core::core::consensus::slip::{Slip, SlipType};
use saito_core::core::consensus::transaction::{Transaction, TransactionType};
use saito_core::core::consensus::wallet::Wallet;
use saito_core::core::defs::*;
use saito_core::core::io::interface_io::{InterfaceEvent, InterfaceIO};
use saito_core::core::io::storage::Storage;
use saito_core::core::util::configuration::*;
use saito_core::core::util::crypto::{generate_keypair_from_private_key, hash};
use tokio::sync::RwLock;

// ---------------------------------------------------------------------------
// InterfaceIO double
// ---------------------------------------------------------------------------

#[derive(Debug, Clone, PartialEq)]
pub enum JournalOp {
    Write(String, Vec<u8>),
    Remove(String),
}

#[derive(Debug, Clone)]
pub enum IfEvent {
    HandshakeComplete(u64),
    ConnectionDropped(u64),
    Connected(u64),
    BlockAddSuccess(SaitoHash, u64),
    WalletUpdate,
    Other,
}

#[derive(Debug, Default)]
pub struct IoState {
    pub files: Mutex<BTreeMap<String, Vec<u8>>>,
    pub journal: Mutex<Vec<JournalOp>>,
    pub out: Mutex<VecDeque<(u64, Vec<u8>)>>,
    pub broadcast: Mutex<VecDeque<(Vec<u8>, Vec<u64>)>>,
    pub fetches: Mutex<VecDeque<(SaitoHash, u64, String, u64)>>,
    pub disconnects: Mutex<Vec<u64>>,
    pub connects: Mutex<Vec<(String, u64)>>,
    pub events: Mutex<Vec<IfEvent>>,
    pub fail_writes: Mutex<bool>,
}

#[derive(Debug, Clone, Default)]
pub struct MemIO {
    pub st: Arc<IoState>,
}

impl MemIO {
    pub fn new() -> MemIO {
        MemIO::default()
    }
    pub fn files(&self) -> BTreeMap<String, Vec<u8>> {
        self.st.files.lock().unwrap().clone()
    }
    pub fn set_files(&self, f: BTreeMap<String, Vec<u8>>) {
        *self.st.files.lock().unwrap() = f;
    }
    pub fn journal(&self) -> Vec<JournalOp> {
        self.st.journal.lock().unwrap().clone()
    }
}

pub const BLOCK_DIR: &str = "mem/blocks/";

#[async_trait]
impl InterfaceIO for MemIO {
    async fn send_message(&self, p: u64, b: &[u8]) -> Result<(), Error> {
        self.st.out.lock().unwrap().push_back((p, b.to_vec()));
        Ok(())
    }
    async fn send_message_to_all(&self, b: &[u8], e: Vec<u64>) -> Result<(), Error> {
        self.st.broadcast.lock().unwrap().push_back((b.to_vec(), e));
        Ok(())
    }
    async fn connect_to_peer(&mut self, u: String, p: PeerIndex) -> Result<(), Error> {
        self.st.connects.lock().unwrap().push((u, p));
        Ok(())
    }
    async fn disconnect_from_peer(&self, p: u64) -> Result<(), Error> {
        self.st.disconnects.lock().unwrap().push(p);
        Ok(())
    }
    async fn fetch_block_from_peer(
        &self,
        h: SaitoHash,
        p: u64,
        u: &str,
        b: BlockId,
    ) -> Result<(), Error> {
        self.st
            .fetches
            .lock()
            .unwrap()
            .push_back((h, p, u.to_string(), b));
        Ok(())
    }
    async fn write_value(&self, key: &str, value: &[u8]) -> Result<(), Error> {
        if *self.st.fail_writes.lock().unwrap() {
            return Err(Error::from(ErrorKind::Other));
        }
        self.st
            .journal
            .lock()
            .unwrap()
            .push(JournalOp::Write(key.to_string(), value.to_vec()));
        self.st
            .files
            .lock()
            .unwrap()
            .insert(key.to_string(), value.to_vec());
        Ok(())
    }
    async fn append_value(&mut self, key: &str, value: &[u8]) -> Result<(), Error> {
        self.st
            .files
            .lock()
            .unwrap()
            .entry(key.to_string())
            .or_default()
            .extend_from_slice(value);
        Ok(())
    }
    async fn flush_data(&mut self, _k: &str) -> Result<(), Error> {
        Ok(())
    }
    async fn read_value(&self, key: &str) -> Result<Vec<u8>, Error> {
        self.st
            .files
            .lock()
            .unwrap()
            .get(key)
            .cloned()
            .ok_or(Error::from(ErrorKind::NotFound))
    }
    async fn load_block_file_list(&self) -> Result<Vec<String>, Error> {
        let d = self.get_block_dir();
        Ok(self
            .st
            .files
            .lock()
            .unwrap()
            .keys()
            .filter(|k| k.starts_with(&d))
            .map(|k| k[d.len()..].to_string())
            .collect())
    }
    async fn is_existing_file(&self, key: &str) -> bool {
        self.st.files.lock().unwrap().contains_key(key)
    }
    async fn remove_value(&self, key: &str) -> Result<(), Error> {
        self.st
            .journal
            .lock()
            .unwrap()
            .push(JournalOp::Remove(key.to_string()));
        self.st.files.lock().unwrap().remove(key);
        Ok(())
    }
    fn get_block_dir(&self) -> String {
        BLOCK_DIR.to_string()
    }
    fn get_checkpoint_dir(&self) -> String {
        "mem/checkpoints/".to_string()
    }
    fn ensure_block_directory_exists(&self, _d: &str) -> Result<(), Error> {
        Ok(())
    }
    async fn process_api_call(&self, _b: Vec<u8>, _m: u32, _p: PeerIndex) {}
    async fn process_api_success(&self, _b: Vec<u8>, _m: u32, _p: PeerIndex) {}
    async fn process_api_error(&self, _b: Vec<u8>, _m: u32, _p: PeerIndex) {}
    fn send_interface_event(&self, e: InterfaceEvent) {
        let ev = match e {
            InterfaceEvent::PeerHandshakeComplete(i) => IfEvent::HandshakeComplete(i),
            InterfaceEvent::PeerConnectionDropped(i, _) => IfEvent::ConnectionDropped(i),
            InterfaceEvent::PeerConnected(i) => IfEvent::Connected(i),
            InterfaceEvent::BlockAddSuccess(h, i) => IfEvent::BlockAddSuccess(h, i),
            InterfaceEvent::WalletUpdate() => IfEvent::WalletUpdate,
            _ => IfEvent::Other,
        };
        self.st.events.lock().unwrap().push(ev);
    }
    async fn save_wallet(&self, _w: &mut Wallet) -> Result<(), Error> {
        Ok(())
    }
    async fn load_wallet(&self, _w: &mut Wallet) -> Result<(), Error> {
        Ok(())
    }
    fn get_my_services(&self) -> Vec<PeerService> {
        vec![]
    }
}

// ---------------------------------------------------------------------------
// Configuration double
// ---------------------------------------------------------------------------

#[derive(Debug, Clone)]
pub struct Cfg {
    pub consensus: ConsensusConfig,
    pub blockchain: BlockchainConfig,
    pub peers: Vec<PeerConfig>,
    pub server: Option<Server>,
    pub spv: bool,
    pub browser: bool,
}
impl Configuration for Cfg {
    fn get_server_configs(&self) -> Option<&Server> {
        self.server.as_ref()
    }
    fn get_peer_configs(&self) -> &Vec<PeerConfig> {
        &self.peers
    }
    fn get_blockchain_configs(&self) -> &BlockchainConfig {
        &self.blockchain
    }
    fn get_block_fetch_url(&self) -> String {
        "http://verif/block/".into()
    }
    fn is_spv_mode(&self) -> bool {
        self.spv
    }
    fn is_browser(&self) -> bool {
        self.browser
    }
    fn replace(&mut self, _c: &dyn Configuration) {}
    fn get_consensus_config(&self) -> Option<&ConsensusConfig> {
        Some(&self.consensus)
    }
}

/// The generated configuration dimensions of a chain-world node.
#[derive(Debug, Clone, Copy, PartialEq, Eq, Hash, serde::Serialize, serde::Deserialize)]
pub struct NodeCfg {
    pub gp: u64,
    pub heartbeat: u64,
    pub social_stake: u64,
    pub loading_completed: bool,
    /// consensus.prune_after_blocks (8 in the shipped configuration; replays recorded before the field existed use 8)
    #[serde(default = "default_prune")]
    pub prune: u64,
}
fn default_prune() -> u64 {
    8
}
impl Default for NodeCfg {
    fn default() -> Self {
        NodeCfg {
            gp: 100,
            heartbeat: 100,
            social_stake: 0,
            loading_completed: true,
            prune: 8,
        }
    }
}
impl NodeCfg {
    pub fn to_cfg(&self) -> Cfg {
        Cfg {
            consensus: ConsensusConfig {
                genesis_period: self.gp,
                heartbeat_interval: self.heartbeat,
                prune_after_blocks: self.prune.max(1),
                max_staker_recursions: 3,
                default_social_stake: self.social_stake,
                default_social_stake_period: 60,
            },
            blockchain: BlockchainConfig {
                initial_loading_completed: self.loading_completed,
                issuance_writing_block_interval: 0,
                ..Default::default()
            },
            peers: vec![],
            server: None,
            spv: false,
            browser: false,
        }
    }
}

// ---------------------------------------------------------------------------
// Keys
// ---------------------------------------------------------------------------

pub type KeyPair = (SaitoPublicKey, SaitoPrivateKey);

/// Deterministic key ring: key `i` is derived from the fixed secret `[i+1; 32]`.
pub fn key(i: u8) -> KeyPair {
    generate_keypair_from_private_key(&[i.wrapping_add(1).max(1); 32])
}

pub fn det_map<K: std::hash::Hash + Eq, V>() -> AHashMap<K, V> {
    // AHashMap<K,V> is AHashMap<K,V,RandomState>; fixed seeds make drain/iteration order a pure
    // function of the insertion history.
    let m: std::collections::HashMap<K, V, RandomState> =
        std::collections::HashMap::with_hasher(RandomState::with_seeds(11, 22, 33, 44));
    AHashMap::from(m)
}

pub fn det_set<K: std::hash::Hash + Eq>() -> ahash::AHashSet<K> {
    let m: std::collections::HashSet<K, RandomState> = std::collections::HashSet::with_hasher(RandomState::with_seeds(11, 22, 33, 44));
    ahash::AHashSet::from(m)
}

/// A wallet whose hash containers iterate in an order that is a pure function of their insertion
/// history (the wallet picks slips by iterating over a hash set).
pub fn det_wallet(sk: SaitoPrivateKey, pk: SaitoPublicKey) -> Wallet {
    let mut w = Wallet::new(sk, pk);
    w.slips = det_map();
    w.unspent_slips = det_set();
    w.staking_slips = det_set();
    w
}

// ---------------------------------------------------------------------------
// Node
// ---------------------------------------------------------------------------

pub struct Node {
    pub wallet: Arc<RwLock<Wallet>>,
    pub chain: Blockchain,
    pub mempool: Mempool,
    pub storage: Storage,
    pub io: MemIO,
    pub cfg: Cfg,
    pub ncfg: NodeCfg,
    pub pk: SaitoPublicKey,
    pub sk: SaitoPrivateKey,
}

pub fn res_str(r: &AddBlockResult) -> &'static str {
    match r {
        AddBlockResult::BlockAddedSuccessfully(_, true, _) => "added_lc",
        AddBlockResult::BlockAddedSuccessfully(_, false, _) => "added_side",
        AddBlockResult::BlockAlreadyExists => "exists",
        AddBlockResult::FailedButRetry(..) => "retry",
        AddBlockResult::FailedNotValid => "invalid",
    }
}

pub const GENESIS_TS: u64 = 1_000_000;

impl Node {
    pub fn new(ncfg: NodeCfg, owner: u8) -> Node {
        Node::with_io(ncfg, owner, MemIO::new())
    }
    pub fn with_io(ncfg: NodeCfg, owner: u8, io: MemIO) -> Node {
        let (pk, sk) = key(owner);
        let wallet = Arc::new(RwLock::new(det_wallet(sk, pk)));
        let chain = Blockchain::new(wallet.clone(), ncfg.gp, ncfg.social_stake, 60);
        let mut mempool = Mempool::new(wallet.clone());
        mempool.transactions = det_map();
        let cfg = ncfg.to_cfg();
        Node {
            wallet,
            chain,
            mempool,
            storage: Storage::new(Box::new(io.clone())),
            io,
            cfg,
            ncfg,
            pk,
            sk,
        }
    }

    /// add_block that converts a panic of the node into None (used for builder nodes, whose
    /// failures are not the subject of the check that is building a history).
    pub async fn add_guarded(&mut self, b: Block) -> Option<AddBlockResult> {
        use futures::FutureExt;
        std::panic::AssertUnwindSafe(self.add(b)).catch_unwind().await.ok()
    }

    pub async fn add(&mut self, b: Block) -> AddBlockResult {
        self.chain
            .add_block(b, &mut self.storage, &mut self.mempool, &self.cfg)
            .await
    }

    /// Deterministic golden-ticket miner (counter instead of RNG).
    pub async fn mine_gt(&self, parent: SaitoHash, miner: &KeyPair, salt: u64) -> Option<Transaction> {
        let pb = self.chain.get_block(&parent)?;
        let diff = pb.difficulty;
        if diff > 22 {
            return None;
        }
        let mut ctr: u64 = salt << 40;
        loop {
            let r = hash(&ctr.to_be_bytes());
            let g = GoldenTicket::create(parent, r, miner.0);
            if g.validate(diff) {
                let mut t = Wallet::create_golden_ticket_transaction(g, &miner.0, &miner.1).await;
                t.generate(&miner.0, 0, 0);
                return Some(t);
            }
            ctr += 1;
        }
    }

    /// Build a block with the repository's own producer `Block::create` on `parent`.
    /// `Block::create` does not validate the transactions it is given, so this is also the
    /// attacker's builder: header values are internally consistent with whatever content is put in.
    pub async fn make_block_as(
        &self,
        creator: &KeyPair,
        parent: SaitoHash,
        ts: u64,
        txs: Vec<Transaction>,
        gt: Option<Transaction>,
    ) -> Result<Block, String> {
        let mut map: AHashMap<SaitoSignature, Transaction> = det_map();
        for t in txs {
            map.insert(t.signature, t);
        }
        use futures::FutureExt;
        let mut b = std::panic::AssertUnwindSafe(Block::create(
            &mut map,
            parent,
            &self.chain,
            ts,
            &creator.0,
            &creator.1,
            gt,
            &self.cfg,
            &self.storage,
        ))
        .catch_unwind()
        .await
        .map_err(|_| "create: panicked".to_string())?
        .map_err(|e| format!("create: {e}"))?;
        b.generate().map_err(|e| format!("generate: {e}"))?;
        Ok(b)
    }

    pub async fn make_block(
        &self,
        parent: SaitoHash,
        ts: u64,
        txs: Vec<Transaction>,
        gt: Option<Transaction>,
    ) -> Result<Block, String> {
        self.make_block_as(&(self.pk, self.sk), parent, ts, txs, gt).await
    }

    /// Genesis block: issuance transactions `(key index, amount)`; optional treasury.
    pub async fn genesis(&self, issuance: &[(u8, u64)], treasury: u64) -> Block {
        let mut b = self
            .make_block([0; 32], GENESIS_TS, vec![], None)
            .await
            .unwrap();
        for (k, a) in issuance {
            let mut tx = Transaction::create_issuance_transaction(key(*k).0, *a);
            tx.generate(&self.pk, 0, 0);
            tx.sign(&self.sk);
            b.add_transaction(tx);
        }
        b.treasury = treasury;
        re_sign(&mut b, &(self.pk, self.sk), true);
        b
    }

    pub fn tip(&self) -> (u64, SaitoHash) {
        (self.chain.get_latest_block_id(), self.chain.get_latest_block_hash())
    }

    /// Spendable, in-window, value-carrying, non-bound outputs of `pk` in this node's utxoset,
    /// sorted deterministically. `for_block_id` is the id of the block the spend is meant for.
    pub fn spendable_of(&self, pk: &SaitoPublicKey, for_block_id: u64) -> Vec<Slip> {
        let mut v: Vec<Slip> = self
            .chain
            .utxoset
            .iter()
            .filter(|(_, s)| **s)
            .filter_map(|(k, _)| Slip::parse_slip_from_utxokey(k).ok())
            .filter(|s| &s.public_key == pk && s.amount > 0)
            .filter(|s| s.slip_type != SlipType::Bound && s.slip_type != SlipType::BlockStake)
            .filter(|s| s.block_id + self.ncfg.gp > for_block_id)
            .collect();
        v.sort_by(|a, b| a.utxoset_key.cmp(&b.utxoset_key));
        v
    }
}

/// Recompute merkle root (optionally), pre-hash, signature, hash.
pub fn re_sign(b: &mut Block, creator: &KeyPair, recompute_merkle: bool) {
    b.creator = creator.0;
    if recompute_merkle {
        b.merkle_root = [0; 32];
    }
    // generate() renumbers slips, fills merkle root when zero, pre-hash and hash
    b.created_hashmap_of_slips_spent_this_block = true;
    let _ = b.generate();
    b.sign(&creator.1);
    let _ = b.generate();
}

// ---------------------------------------------------------------------------
// Honest transaction builder (independent of Wallet)
// ---------------------------------------------------------------------------

#[derive(Debug, Clone)]
pub struct TxPlan {
    pub payer: u8,
    pub payee: u8,
    pub amount: u64,
    pub fee: u64,
    pub max_inputs: usize,
    pub ts: u64,
}

/// Build and sign a Normal transaction from explicitly chosen inputs.
pub fn tx_from_inputs(
    inputs: Vec<Slip>,
    outputs: Vec<(SaitoPublicKey, u64)>,
    signer: &KeyPair,
    ts: u64,
    data: Vec<u8>,
) -> Transaction {
    let mut t = Transaction::default();
    t.timestamp = ts;
    t.data = data;
    for mut s in inputs {
        s.generate_utxoset_key();
        t.add_from_slip(s);
    }
    for (pk, a) in outputs {
        let mut o = Slip::default();
        o.public_key = pk;
        o.amount = a;
        t.add_to_slip(o);
    }
    t.sign(&signer.1);
    t.generate(&signer.0, 0, 0);
    t
}

/// Honest spend of `plan.payer`'s funds on `node`'s current ledger, avoiding `reserved` inputs.
/// Returns None when the payer cannot afford it.
pub fn build_honest_tx(
    node: &Node,
    plan: &TxPlan,
    for_block_id: u64,
    reserved: &mut std::collections::BTreeSet<SaitoUTXOSetKey>,
) -> Option<Transaction> {
    let payer = key(plan.payer);
    let need = plan.amount.checked_add(plan.fee)?;
    let mut total: u64 = 0;
    let mut ins = vec![];
    for s in node.spendable_of(&payer.0, for_block_id) {
        if reserved.contains(&s.utxoset_key) {
            continue;
        }
        if ins.len() >= plan.max_inputs.max(1) && total >= need {
            break;
        }
        total = total.checked_add(s.amount)?;
        ins.push(s);
        if total >= need && ins.len() >= plan.max_inputs.min(3) {
            break;
        }
    }
    if total < need || ins.is_empty() {
        return None;
    }
    for s in &ins {
        reserved.insert(s.utxoset_key);
    }
    let change = total - need;
    let mut outs = vec![(key(plan.payee).0, plan.amount)];
    if change > 0 {
        outs.push((payer.0, change));
    }
    Some(tx_from_inputs(ins, outs, &payer, plan.ts, vec![]))
}

/// Honest creation of an NFT (Bound transaction) from one spendable output of `plan.payer`, built
/// the way Wallet::create_bound_transaction lays it out: input = the output that gives the NFT
/// its identity; outputs = [Bound(creator key, 1), Normal(payee, deposit), Bound(uuid, 0), change].
pub fn build_honest_nft_tx(
    node: &Node,
    plan: &TxPlan,
    for_block_id: u64,
    reserved: &mut std::collections::BTreeSet<SaitoUTXOSetKey>,
) -> Option<Transaction> {
    use saito_core::core::consensus::slip::SlipType;
    let payer = key(plan.payer);
    let s = node
        .spendable_of(&payer.0, for_block_id)
        .into_iter()
        .find(|s| !reserved.contains(&s.utxoset_key) && s.slip_type == SlipType::Normal && s.amount > plan.fee.saturating_add(1))?;
    reserved.insert(s.utxoset_key);
    let deposit = plan.amount.clamp(1, s.amount - plan.fee);
    let change = s.amount - plan.fee - deposit;
    let mut t = Transaction::default();
    t.transaction_type = TransactionType::Bound;
    t.timestamp = plan.ts;
    let mut input = s.clone();
    input.generate_utxoset_key();
    let uuid = saito_core::core::consensus::wallet::Wallet::create_nft_uuid(&input, "verif");
    t.add_from_slip(input);
    let mut o1 = Slip::default();
    o1.public_key = payer.0;
    o1.amount = 1;
    o1.slip_type = SlipType::Bound;
    let mut o2 = Slip::default();
    o2.public_key = key(plan.payee).0;
    o2.amount = deposit;
    let mut o3 = Slip::default();
    o3.public_key = uuid;
    o3.amount = 0;
    o3.slip_type = SlipType::Bound;
    t.add_to_slip(o1);
    t.add_to_slip(o2);
    t.add_to_slip(o3);
    if change > 0 {
        let mut c = Slip::default();
        c.public_key = payer.0;
        c.amount = change;
        t.add_to_slip(c);
    }
    t.sign(&payer.1);
    t.generate(&payer.0, 0, 0);
    Some(t)
}

/// A zero-value "carrier" transaction (blocks with id>1 need at least one transaction).
pub fn carrier_tx(signer: &KeyPair, ts: u64) -> Transaction {
    let mut t = Transaction::default();
    let mut s = Slip::default();
    s.public_key = signer.0;
    t.add_from_slip(s.clone());
    t.add_to_slip(s);
    t.timestamp = ts;
    t.sign(&signer.1);
    t.generate(&signer.0, 0, 0);
    t
}

/// Append routing hops `path[0] -> path[1] -> ...` signed by each forwarder.
pub fn add_path(t: &mut Transaction, path: &[u8]) {
    for w in path.windows(2) {
        let from = key(w[0]);
        let to = key(w[1]);
        if from.0 == to.0 {
            continue;
        }
        t.add_hop(&from.1, &from.0, &to.0);
    }
}

pub fn tx_type_name(t: TransactionType) -> &'static str {
    match t {
        TransactionType::Normal => "Normal",
        TransactionType::Fee => "Fee",
        TransactionType::GoldenTicket => "GoldenTicket",
        TransactionType::ATR => "ATR",
        TransactionType::Vip => "Vip",
        TransactionType::SPV => "SPV",
        TransactionType::Issuance => "Issuance",
        TransactionType::BlockStake => "BlockStake",
        TransactionType::Bound => "Bound",
    }
}

pub fn hx(h: &[u8]) -> String {
    hex::encode(&h[..h.len().min(6)])
}
