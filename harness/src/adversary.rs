//! The adversarial edit catalogues: transaction edits (C01/C02/C11) and block/header edits
//! (C04/C06). Every edit is constructed from a transaction/block the reference model judges valid.

use saito_core::core::consensus::block::Block;
use saito_core::core::consensus::slip::{Slip, SlipType};
use saito_core::core::consensus::transaction::{Transaction, TransactionType};
use saito_core::core::defs::*;
use serde::{Deserialize, Serialize};

use crate::world::*;

#[derive(Debug, Clone, Copy, PartialEq, Eq, Hash, PartialOrd, Ord, Serialize, Deserialize)]
pub enum TxEdit {
    ForgedSig,
    NoSig,
    MutatedAfterSign,
    ForeignExtraInput,
    ForeignOnlyInput,
    NonExistentInput,
    InflatedInput,
    ExpiredInput,
    SpentInput,
    DupInputInTx,
    Overspend,
    OverspendWrap,
    TypeFee,
    TypeSpv,
    TypeAtr,
    TypeIssuance,
    TypeVip,
    TypeBlockStake,
    TypeBound,
    /// spends an output that was created only on a branch that is not the current chain, signed
    /// by its owner (C01 only; not part of TX_EDITS so that recorded edit indices stay stable)
    OffChainInput,
    /// BlockStake-typed transaction without any input and a Normal output (C01 only)
    StakeTypeNoInput,
    /// BlockStake-typed transaction that spends the victim's output to the attacker, signed by the attacker (C01 only)
    StakeTypeForeignInput,
    /// ATR-typed transaction (rebroadcasts are waived the signature / ownership / utxo checks) that
    /// spends the victim's output into a Normal output of the attacker - no ATR slip at all (C01 only)
    AtrTypeForeignInput,
    /// ATR-typed transaction without input and with a Normal output (C01 only)
    AtrTypeMintNormalOutput,
    /// an individually valid spend of the attacker's own output to the victim; C01 places it in a
    /// block that already carries another valid spend of the same output (C01 only, block layer only)
    TwiceInBlock,
    /// BlockStake-typed transaction, signed by the owner, spending the owner's own output that has
    /// left the window (edge first: the block that leaves it with the next block) (C01 only)
    StakeTypeExpiredInput,
    /// BlockStake-typed transaction, signed by the owner, spending an output of the owner that was
    /// spent in an earlier block (C01, and C02's side-chain motif)
    StakeTypeSpentInput,
}
/// edits that are judged by C01 only (kept out of TX_EDITS so that recorded edit indices stay stable)
pub const TX_EDITS_EXTRA: [TxEdit; 8] = [TxEdit::OffChainInput, TxEdit::StakeTypeNoInput, TxEdit::StakeTypeForeignInput, TxEdit::AtrTypeForeignInput, TxEdit::AtrTypeMintNormalOutput, TxEdit::TwiceInBlock, TxEdit::StakeTypeExpiredInput, TxEdit::StakeTypeSpentInput];
pub const TX_EDITS: [TxEdit; 19] = [
    TxEdit::ForgedSig,
    TxEdit::NoSig,
    TxEdit::MutatedAfterSign,
    TxEdit::ForeignExtraInput,
    TxEdit::ForeignOnlyInput,
    TxEdit::NonExistentInput,
    TxEdit::InflatedInput,
    TxEdit::ExpiredInput,
    TxEdit::SpentInput,
    TxEdit::DupInputInTx,
    TxEdit::Overspend,
    TxEdit::OverspendWrap,
    TxEdit::TypeFee,
    TxEdit::TypeSpv,
    TxEdit::TypeAtr,
    TxEdit::TypeIssuance,
    TxEdit::TypeVip,
    TxEdit::TypeBlockStake,
    TxEdit::TypeBound,
];

pub struct EditCtx<'a> {
    pub node: &'a Node,
    /// attacker key index (owns at least one spendable output, else edits needing it return None)
    pub attacker: u8,
    /// victim key index (owns at least one spendable output)
    pub victim: u8,
    pub for_block_id: u64,
    pub ts: u64,
    /// outputs that were spent earlier on this chain (for SpentInput)
    pub spent: &'a [Slip],
    /// outputs that exist but are older than the window (for ExpiredInput)
    pub expired: &'a [Slip],
    /// outputs created only on branches other than the current chain (for OffChainInput)
    pub offchain: &'a [Slip],
}

/// A correctly signed transaction of arbitrary *shape*: any transaction type, 0..=5 inputs and
/// 0..=5 outputs of any slip types (half of them Bound, the type with the longest positional
/// validation rules), payload of several lengths. Decoded from one integer so that it is part of
/// the generated case and shrinks with it. Judged for robustness (C11), not for validity.
pub fn shape_tx(code: u64, signer: &KeyPair, real: Option<&Slip>, ts: u64) -> Transaction {
    const TT: [TransactionType; 9] = [
        TransactionType::Normal,
        TransactionType::Fee,
        TransactionType::GoldenTicket,
        TransactionType::ATR,
        TransactionType::Vip,
        TransactionType::SPV,
        TransactionType::Issuance,
        TransactionType::BlockStake,
        TransactionType::Bound,
    ];
    const ST: [SlipType; 10] = [
        SlipType::Normal,
        SlipType::ATR,
        SlipType::VipInput,
        SlipType::VipOutput,
        SlipType::MinerInput,
        SlipType::MinerOutput,
        SlipType::RouterInput,
        SlipType::RouterOutput,
        SlipType::BlockStake,
        SlipType::Bound,
    ];
    let mut r = code;
    let mut take = |m: u64| {
        let x = r % m;
        r /= m;
        x
    };
    // a third of the shapes are Bound-typed
    let tsel = take(14);
    let ttype = if tsel >= 9 { TransactionType::Bound } else { TT[tsel as usize] };
    let nfrom = take(6) as usize;
    let nto = take(6) as usize;
    let data_len = [0usize, 33, 97, 200][take(4) as usize];
    let use_real = take(2) == 1;
    let mut t = Transaction::default();
    t.transaction_type = ttype;
    t.timestamp = ts;
    t.data = (0..data_len).map(|i| (i as u8).wrapping_mul(31).wrapping_add(code as u8)).collect();
    let mut slip_type = |take: &mut dyn FnMut(u64) -> u64| {
        let d = take(16);
        if d < 5 {
            SlipType::Bound
        } else if d < 8 {
            SlipType::Normal
        } else {
            ST[(d as usize - 8) % ST.len()]
        }
    };
    for i in 0..nfrom {
        let mut s = Slip::default();
        s.public_key = signer.0;
        if let (true, Some(rs)) = (use_real, real) {
            // somebody else's live output (the signer owns nothing)
            s.public_key = rs.public_key;
            s.amount = rs.amount;
            s.block_id = rs.block_id;
            s.tx_ordinal = rs.tx_ordinal;
            s.slip_index = rs.slip_index.wrapping_add(i as u8);
        }
        s.slip_type = slip_type(&mut take);
        s.generate_utxoset_key();
        t.from.push(s);
    }
    for i in 0..nto {
        let mut s = Slip::default();
        s.public_key = signer.0;
        s.amount = if use_real && i == 1 { real.map(|r| r.amount).unwrap_or(0) } else { 0 };
        s.slip_type = slip_type(&mut take);
        t.to.push(s);
    }
    t.sign(&signer.1);
    t.generate(&signer.0, 0, 0);
    t
}

fn out(pk: SaitoPublicKey, amount: u64) -> (SaitoPublicKey, u64) {
    (pk, amount)
}

/// Builds the edited (invalid) transaction. Returns None when the chain state does not offer the
/// material the edit needs (counted as discarded by the caller).
pub fn edited_tx(e: TxEdit, c: &EditCtx) -> Option<Transaction> {
    let att = key(c.attacker);
    let vic = key(c.victim);
    let att_slips = c.node.spendable_of(&att.0, c.for_block_id);
    let vic_slips = c.node.spendable_of(&vic.0, c.for_block_id);
    let a0 = att_slips.first().cloned();
    let v0 = vic_slips.iter().max_by_key(|s| s.amount).cloned();
    match e {
        TxEdit::ForgedSig => {
            // spends the victim's output, signed by the attacker's key
            let v = v0?;
            let mut t = tx_from_inputs(vec![v.clone()], vec![out(att.0, v.amount)], &att, c.ts, vec![]);
            t.generate(&att.0, 0, 0);
            Some(t)
        }
        TxEdit::NoSig => {
            let v = v0?;
            let mut t = tx_from_inputs(vec![v.clone()], vec![out(att.0, v.amount)], &vic, c.ts, vec![]);
            t.signature = [0; 64];
            t.generate(&att.0, 0, 0);
            Some(t)
        }
        TxEdit::MutatedAfterSign => {
            // validly signed by the victim paying itself; attacker redirects the output afterwards
            let v = v0?;
            let mut t = tx_from_inputs(vec![v.clone()], vec![out(vic.0, v.amount)], &vic, c.ts, vec![]);
            t.to[0].public_key = att.0;
            t.generate(&att.0, 0, 0);
            Some(t)
        }
        TxEdit::ForeignExtraInput => {
            // from[0] is the attacker's own output (signature verifies), from[1] is the victim's
            let a = a0?;
            let v = v0?;
            let total = a.amount.checked_add(v.amount)?;
            Some(tx_from_inputs(vec![a, v], vec![out(att.0, total)], &att, c.ts, vec![]))
        }
        TxEdit::ForeignOnlyInput => {
            // from[0] is a zero-value slip of the attacker (signature verifies), value comes from the victim
            let v = v0?;
            let mut z = Slip::default();
            z.public_key = att.0;
            Some(tx_from_inputs(vec![z, v.clone()], vec![out(att.0, v.amount)], &att, c.ts, vec![]))
        }
        TxEdit::NonExistentInput => {
            let mut s = Slip::default();
            s.public_key = att.0;
            s.amount = 777_777;
            s.block_id = c.for_block_id.saturating_sub(1).max(1);
            s.tx_ordinal = 91;
            s.slip_index = 3;
            Some(tx_from_inputs(vec![s], vec![out(att.0, 777_777)], &att, c.ts, vec![]))
        }
        TxEdit::InflatedInput => {
            let mut a = a0?;
            a.amount = a.amount.checked_add(1_000_000)?;
            let amt = a.amount;
            Some(tx_from_inputs(vec![a], vec![out(att.0, amt)], &att, c.ts, vec![]))
        }
        TxEdit::ExpiredInput => {
            let s = c.expired.first()?.clone();
            let owner = (0u8..8).map(key).find(|k| k.0 == s.public_key)?;
            let amt = s.amount;
            Some(tx_from_inputs(vec![s], vec![out(owner.0, amt)], &owner, c.ts, vec![]))
        }
        TxEdit::StakeTypeSpentInput => {
            let s = c.spent.first()?.clone();
            let owner = (0u8..8).map(key).find(|k| k.0 == s.public_key)?;
            let amt = s.amount;
            let mut t = tx_from_inputs(vec![s], vec![], &owner, c.ts, vec![]);
            let mut o = Slip::default();
            o.public_key = owner.0;
            o.amount = amt;
            o.slip_type = SlipType::BlockStake;
            t.to.push(o);
            t.transaction_type = TransactionType::BlockStake;
            t.sign(&owner.1);
            t.generate(&owner.0, 0, 0);
            Some(t)
        }
        TxEdit::StakeTypeExpiredInput => {
            let s = c.expired.first()?.clone();
            let owner = (0u8..8).map(key).find(|k| k.0 == s.public_key)?;
            let amt = s.amount;
            let mut t = tx_from_inputs(vec![s], vec![], &owner, c.ts, vec![]);
            let mut o = Slip::default();
            o.public_key = owner.0;
            o.amount = amt;
            o.slip_type = SlipType::BlockStake;
            t.to.push(o);
            t.transaction_type = TransactionType::BlockStake;
            t.sign(&owner.1);
            t.generate(&owner.0, 0, 0);
            Some(t)
        }
        TxEdit::SpentInput => {
            let s = c.spent.first()?.clone();
            let owner = (0u8..8).map(key).find(|k| k.0 == s.public_key)?;
            let amt = s.amount;
            Some(tx_from_inputs(vec![s], vec![out(owner.0, amt)], &owner, c.ts, vec![]))
        }
        TxEdit::OffChainInput => {
            let s = c.offchain.first()?.clone();
            let owner = (0u8..8).map(key).find(|k| k.0 == s.public_key)?;
            let amt = s.amount;
            Some(tx_from_inputs(vec![s], vec![out(owner.0, amt)], &owner, c.ts, vec![]))
        }
        TxEdit::StakeTypeNoInput => {
            let mut t = Transaction::default();
            t.timestamp = c.ts;
            t.transaction_type = TransactionType::BlockStake;
            let mut o = Slip::default();
            o.public_key = att.0;
            o.amount = 654_321;
            t.add_to_slip(o);
            t.sign(&att.1);
            t.generate(&att.0, 0, 0);
            Some(t)
        }
        TxEdit::StakeTypeForeignInput => {
            let v = v0?;
            let mut t = tx_from_inputs(vec![v.clone()], vec![out(att.0, v.amount)], &att, c.ts, vec![]);
            t.transaction_type = TransactionType::BlockStake;
            t.sign(&att.1);
            t.generate(&att.0, 0, 0);
            Some(t)
        }
        TxEdit::AtrTypeForeignInput => {
            let v = v0?;
            let mut t = tx_from_inputs(vec![v.clone()], vec![out(att.0, v.amount)], &att, c.ts, vec![]);
            t.transaction_type = TransactionType::ATR;
            t.sign(&att.1);
            t.generate(&att.0, 0, 0);
            Some(t)
        }
        TxEdit::AtrTypeMintNormalOutput => {
            let mut t = Transaction::default();
            t.timestamp = c.ts;
            t.transaction_type = TransactionType::ATR;
            let mut o = Slip::default();
            o.public_key = att.0;
            o.amount = 321_000;
            t.add_to_slip(o);
            t.sign(&att.1);
            t.generate(&att.0, 0, 0);
            Some(t)
        }
        TxEdit::TwiceInBlock => {
            // a rebroadcast (ATR-typed) output if the attacker owns one, else its first output
            let a = att_slips.iter().find(|s| s.slip_type == SlipType::ATR).cloned().or(a0)?;
            let amt = a.amount;
            Some(tx_from_inputs(vec![a], vec![out(vic.0, amt)], &att, c.ts + 1, vec![]))
        }
        TxEdit::DupInputInTx => {
            let a = a0?;
            let total = a.amount.checked_mul(2)?;
            Some(tx_from_inputs(vec![a.clone(), a], vec![out(att.0, total)], &att, c.ts, vec![]))
        }
        TxEdit::Overspend => {
            let a = a0?;
            let amt = a.amount.checked_add(1)?;
            Some(tx_from_inputs(vec![a], vec![out(att.0, amt)], &att, c.ts, vec![]))
        }
        TxEdit::OverspendWrap => {
            // outputs sum to 2^64 + (a.amount) in unbounded arithmetic, i.e. wrap to a.amount in u64
            let a = a0?;
            let x = a.amount;
            let o1 = u64::MAX - 5;
            let o2 = x.wrapping_sub(o1); // o1 + o2 == x (mod 2^64)
            Some(tx_from_inputs(vec![a], vec![out(att.0, o1), out(att.0, o2)], &att, c.ts, vec![]))
        }
        TxEdit::TypeFee | TxEdit::TypeSpv | TxEdit::TypeAtr | TxEdit::TypeIssuance | TxEdit::TypeVip | TxEdit::TypeBlockStake | TxEdit::TypeBound => {
            // privileged type used to mint: no value input, attacker-owned output
            let mut t = Transaction::default();
            t.timestamp = c.ts;
            t.transaction_type = match e {
                TxEdit::TypeFee => TransactionType::Fee,
                TxEdit::TypeSpv => TransactionType::SPV,
                TxEdit::TypeAtr => TransactionType::ATR,
                TxEdit::TypeIssuance => TransactionType::Issuance,
                TxEdit::TypeVip => TransactionType::Vip,
                TxEdit::TypeBlockStake => TransactionType::BlockStake,
                _ => TransactionType::Bound,
            };
            let mut z = Slip::default();
            z.public_key = att.0;
            if !matches!(e, TxEdit::TypeFee | TxEdit::TypeIssuance | TxEdit::TypeAtr) {
                t.add_from_slip(z);
            }
            let mut o = Slip::default();
            o.public_key = att.0;
            o.amount = 123_456;
            if e == TxEdit::TypeBlockStake {
                o.slip_type = SlipType::BlockStake;
            }
            if e == TxEdit::TypeAtr {
                o.slip_type = SlipType::ATR;
            }
            t.add_to_slip(o);
            if e == TxEdit::TypeBound {
                // [Bound, Normal, Bound] with minted value in the middle
                let mut b1 = Slip::default();
                b1.public_key = att.0;
                b1.slip_type = SlipType::Bound;
                b1.amount = 1;
                let mut b3 = Slip::default();
                b3.public_key = [0; 33];
                b3.slip_type = SlipType::Bound;
                let mid = t.to.pop().unwrap();
                t.to = vec![b1, mid, b3];
            }
            t.sign(&att.1);
            t.generate(&att.0, 0, 0);
            Some(t)
        }
    }
}

// ---------------------------------------------------------------------------
// Block / header edits
// ---------------------------------------------------------------------------

#[derive(Debug, Clone, Copy, PartialEq, Eq, Hash, PartialOrd, Ord, Serialize, Deserialize)]
pub enum BlockEdit {
    /// header lies, re-signed by the creator (a lying but consistent producer)
    BurnFee,
    Treasury,
    Graveyard,
    Difficulty,
    PrevUnpaid,
    TotalFeesUnsigned,
    AvgTotalFees,
    /// signature made by another key, creator field unchanged
    CreatorSig,
    /// golden ticket replaced by one for a different target hash
    GtWrongTarget,
    /// no transactions at all
    Empty,
    /// payout lies by the producer (not in BLOCK_EDITS, whose indices are recorded in replays):
    /// the fee transaction gets an extra output / loses its last output / pays its first output to
    /// another key / pays one nolan more; merkle root recomputed, block re-signed
    FeeTxExtraOutput,
    FeeTxDropOutput,
    FeeTxRedirect,
    FeeTxInflate,
    /// the rebroadcast (ATR) transactions of the block pay their outputs to another key; rebroadcast
    /// hash, merkle root and signature are recomputed from the edited content (not in BLOCK_EDITS)
    AtrRedirect,
    /// the header carries an id that is not the parent's id + 1, re-signed by the creator (not in
    /// BLOCK_EDITS): two ids skipped / an id at or below the parent's
    IdSkip,
    IdStale,
}
pub const ID_EDITS: [BlockEdit; 2] = [BlockEdit::IdSkip, BlockEdit::IdStale];
pub const PAYOUT_EDITS: [BlockEdit; 4] = [BlockEdit::FeeTxExtraOutput, BlockEdit::FeeTxDropOutput, BlockEdit::FeeTxRedirect, BlockEdit::FeeTxInflate];
pub const BLOCK_EDITS: [BlockEdit; 10] = [
    BlockEdit::BurnFee,
    BlockEdit::Treasury,
    BlockEdit::Graveyard,
    BlockEdit::Difficulty,
    BlockEdit::PrevUnpaid,
    BlockEdit::TotalFeesUnsigned,
    BlockEdit::AvgTotalFees,
    BlockEdit::CreatorSig,
    BlockEdit::GtWrongTarget,
    BlockEdit::Empty,
];

/// Applies a header-level lie to an honest block. Returns false if not applicable.
pub fn apply_block_edit(b: &mut Block, e: BlockEdit, creator: &KeyPair, parent_difficulty: u64) -> bool {
    match e {
        BlockEdit::BurnFee => b.burnfee = b.burnfee.wrapping_add(1),
        BlockEdit::Treasury => b.treasury = b.treasury.wrapping_add(1_000),
        BlockEdit::Graveyard => b.graveyard = b.graveyard.wrapping_add(1_000),
        BlockEdit::Difficulty => b.difficulty = b.difficulty.wrapping_add(1),
        BlockEdit::PrevUnpaid => b.previous_block_unpaid = b.previous_block_unpaid.wrapping_add(7),
        BlockEdit::TotalFeesUnsigned => b.total_fees = b.total_fees.wrapping_add(5),
        BlockEdit::AvgTotalFees => b.avg_total_fees = b.avg_total_fees.wrapping_add(9),
        BlockEdit::IdSkip => b.id += 2,
        BlockEdit::IdStale => {
            if b.id < 3 {
                return false;
            }
            b.id -= 2;
        }
        BlockEdit::AtrRedirect => {
            let mut any = false;
            for t in b.transactions.iter_mut().filter(|t| t.transaction_type == TransactionType::ATR) {
                for o in t.to.iter_mut().filter(|o| o.slip_type == SlipType::ATR) {
                    o.public_key = key(6).0;
                    any = true;
                }
            }
            if !any {
                return false;
            }
            re_sign(b, creator, true);
            return true;
        }
        BlockEdit::CreatorSig => {
            let other = key(7);
            b.generate_pre_hash();
            b.sign(&other.1);
            b.created_hashmap_of_slips_spent_this_block = true;
            let _ = b.generate();
            return true;
        }
        BlockEdit::GtWrongTarget => {
            let idx = match b.transactions.iter().position(|t| t.transaction_type == TransactionType::GoldenTicket) {
                Some(i) => i,
                None => return false,
            };
            // flip the target hash inside the ticket payload and re-sign the ticket
            let miner = (0u8..8).map(key).find(|k| k.0 == b.transactions[idx].from[0].public_key);
            let miner = match miner {
                Some(m) => m,
                None => return false,
            };
            // The validator rebuilds the ticket from (parent hash, random, miner key), so only the
            // random/key decide validity. Replace the random by one whose solution has no leading
            // zero bit: invalid for every parent difficulty >= 1 (at difficulty 0 every ticket is
            // valid, so the edit does not apply).
            if parent_difficulty == 0 {
                return false;
            }
            let mut ctr: u64 = 0;
            loop {
                let r = saito_core::core::util::crypto::hash(&ctr.to_be_bytes());
                let g = saito_core::core::consensus::golden_ticket::GoldenTicket::create(b.previous_block_hash, r, miner.0);
                if !g.validate(1) {
                    b.transactions[idx].data = g.serialize_for_net();
                    break;
                }
                ctr += 1;
            }
            b.transactions[idx].sign(&miner.1);
        }
        BlockEdit::Empty => {
            b.transactions.clear();
        }
        BlockEdit::FeeTxExtraOutput | BlockEdit::FeeTxDropOutput | BlockEdit::FeeTxRedirect | BlockEdit::FeeTxInflate => {
            let idx = match b.transactions.iter().position(|t| t.transaction_type == TransactionType::Fee) {
                Some(i) => i,
                None => return false,
            };
            let t = &mut b.transactions[idx];
            match e {
                BlockEdit::FeeTxExtraOutput => {
                    let mut o = Slip::default();
                    o.public_key = key(7).0;
                    o.amount = 1_000_000;
                    o.slip_type = SlipType::RouterOutput;
                    t.add_to_slip(o);
                }
                BlockEdit::FeeTxDropOutput => {
                    if t.to.pop().is_none() {
                        return false;
                    }
                }
                BlockEdit::FeeTxRedirect => {
                    match t.to.iter_mut().find(|s| s.amount > 0) {
                        Some(s) if s.public_key != key(7).0 => s.public_key = key(7).0,
                        _ => return false,
                    }
                }
                _ => match t.to.iter_mut().find(|s| s.amount > 0) {
                    Some(s) => s.amount += 1,
                    None => return false,
                },
            }
        }
    }
    re_sign(b, creator, true);
    true
}

/// Make `node` treat `b` as accepted on top of its current tip without validation (harness-side
/// emulation of acceptance, so that honest-looking children can be built on an invalid block).
pub async fn force_accept(node: &mut Node, b: &Block) {
    let mut b = b.clone();
    b.in_longest_chain = true;
    node.storage.write_block_to_disk(&b).await;
    if !node.chain.blockring.contains_block_hash_at_block_id(b.id, b.hash) {
        node.chain.blockring.add_block(&b);
    }
    node.chain.blockring.on_chain_reorganization(b.id, b.hash, true);
    node.chain.blockring.empty = false;
    b.on_chain_reorganization(&mut node.chain.utxoset, true);
    node.chain.last_block_id = b.id;
    node.chain.last_block_hash = b.hash;
    node.chain.blocks.insert(b.hash, b);
    // the invalid block may have minted or burnt value: let the builder's own supply check re-latch
    node.chain.initial_token_supply = 0;
}
