//! Delivery engine: offers blocks to a node one at a time (like the consensus thread does from the
//! mempool queue), with outcome capture (panic, divergence via hook H1) and retry of blocks the
//! node asked to be retried.

use std::collections::BTreeSet;
use std::sync::atomic::Ordering;

use saito_core::core::consensus::block::Block;
use saito_core::core::consensus::blockchain::{AddBlockResult, VERIF_WIND_STEPS, VERIF_WIND_STEP_LIMIT};
use saito_core::core::defs::*;

use crate::ctx::{block_on, catch, Outcome};
use crate::world::{res_str, Node};

#[derive(Debug, Clone, PartialEq)]
pub enum StepOutcome {
    /// "added_lc" | "added_side" | "exists" | "retry" | "invalid"
    Result(&'static str),
    Panicked(String, String),
    /// wind/unwind loop exceeded the step bound (livelock); value = steps taken
    Diverged(u64),
}
impl StepOutcome {
    pub fn name(&self) -> &'static str {
        match self {
            StepOutcome::Result(r) => r,
            StepOutcome::Panicked(..) => "panicked",
            StepOutcome::Diverged(_) => "diverged",
        }
    }
    pub fn accepted(&self) -> bool {
        matches!(self, StepOutcome::Result("added_lc") | StepOutcome::Result("added_side"))
    }
}

/// One guarded `add_block`. `bound` = maximal number of wind/unwind steps allowed.
pub fn guarded_add(node: &mut Node, b: Block, bound: u64) -> (StepOutcome, u64) {
    VERIF_WIND_STEPS.store(0, Ordering::SeqCst);
    VERIF_WIND_STEP_LIMIT.store(bound, Ordering::SeqCst);
    let out = catch(|| block_on(node.add(b)));
    let steps = VERIF_WIND_STEPS.load(Ordering::SeqCst);
    VERIF_WIND_STEP_LIMIT.store(u64::MAX, Ordering::SeqCst);
    let so = match out {
        Outcome::Panicked(s, m) => StepOutcome::Panicked(s, m),
        Outcome::Returned(r) => {
            if steps > bound {
                StepOutcome::Diverged(steps)
            } else {
                StepOutcome::Result(res_str(&r))
            }
        }
    };
    (so, steps)
}

pub fn is_retry(r: &AddBlockResult) -> bool {
    matches!(r, AddBlockResult::FailedButRetry(..))
}

pub struct Deliverer {
    pub node: Node,
    /// blocks the node asked to retry (their parent was unknown)
    pub pending: Vec<Block>,
    pub accepted: BTreeSet<SaitoHash>,
    pub dead: bool,
    pub step_bound: u64,
}

#[derive(Debug, Clone)]
pub struct Delivered {
    pub hash: SaitoHash,
    pub id: u64,
    pub outcome: StepOutcome,
    pub steps: u64,
    pub reoffered: bool,
    pub tip_before: (u64, SaitoHash),
    pub tip_after: (u64, SaitoHash),
}

impl Deliverer {
    pub fn new(node: Node, step_bound: u64) -> Deliverer {
        Deliverer {
            node,
            pending: vec![],
            accepted: BTreeSet::new(),
            dead: false,
            step_bound,
        }
    }

    pub fn offer(&mut self, b: Block, reoffered: bool) -> Delivered {
        let tip_before = self.node.tip();
        let (hash, id) = (b.hash, b.id);
        let (outcome, steps) = guarded_add(&mut self.node, b.clone(), self.step_bound);
        match &outcome {
            StepOutcome::Panicked(..) | StepOutcome::Diverged(_) => self.dead = true,
            StepOutcome::Result("retry") => {
                if !self.pending.iter().any(|p| p.hash == hash) {
                    self.pending.push(b);
                }
            }
            StepOutcome::Result("added_lc") | StepOutcome::Result("added_side") => {
                self.accepted.insert(hash);
            }
            _ => {}
        }
        let tip_after = if self.dead { tip_before } else { self.node.tip() };
        Delivered {
            hash,
            id,
            outcome,
            steps,
            reoffered,
            tip_before,
            tip_after,
        }
    }

    /// Next pending block whose parent has become known to the node, if any.
    pub fn take_ready_pending(&mut self) -> Option<Block> {
        let pos = self
            .pending
            .iter()
            .position(|p| self.node.chain.blocks.contains_key(&p.previous_block_hash))?;
        Some(self.pending.remove(pos))
    }

    /// Offers `b`; afterwards re-offers pending blocks whose parent has become known, until no
    /// further progress. Returns every offer made, in order.
    pub fn deliver(&mut self, b: &Block) -> Vec<Delivered> {
        let mut out = vec![];
        if self.dead {
            return out;
        }
        out.push(self.offer(b.clone(), false));
        loop {
            if self.dead {
                break;
            }
            let pos = self
                .pending
                .iter()
                .position(|p| self.node.chain.blocks.contains_key(&p.previous_block_hash));
            match pos {
                Some(i) => {
                    let p = self.pending.remove(i);
                    out.push(self.offer(p, true));
                }
                None => break,
            }
        }
        out
    }
}

/// Permutation from selectors: sel[i] picks among the remaining items (monotone mapping so that
/// shrinking moves towards the natural order).
pub fn permutation(n: usize, sel: &[u16]) -> Vec<usize> {
    let mut rest: Vec<usize> = (0..n).collect();
    let mut out = vec![];
    for i in 0..n {
        let s = sel.get(i).copied().unwrap_or(0) as usize;
        let k = (s * rest.len()) >> 16;
        out.push(rest.remove(k));
    }
    out
}

pub fn all_permutations(n: usize) -> Vec<Vec<usize>> {
    fn rec(cur: &mut Vec<usize>, used: &mut Vec<bool>, n: usize, out: &mut Vec<Vec<usize>>) {
        if cur.len() == n {
            out.push(cur.clone());
            return;
        }
        for i in 0..n {
            if !used[i] {
                used[i] = true;
                cur.push(i);
                rec(cur, used, n, out);
                cur.pop();
                used[i] = false;
            }
        }
    }
    let mut out = vec![];
    rec(&mut vec![], &mut vec![false; n], n, &mut out);
    out
}


/// True if, for `node`, the chain ending in `b` is not connected to anything it stores: walking
/// back from `b` through the harness' block table reaches a block the node does not hold before
/// reaching one it does (other than through the genesis block). Such a delivery goes through the
/// "blocks received out-of-order" branch of add_block (known finding F10) unless the node answers
/// with a retry request.
pub fn is_rootless(node: &Node, table: &crate::observe::BlockTable, b: &Block) -> bool {
    if node.chain.blocks.is_empty() {
        return false;
    }
    let mut cur = b.previous_block_hash;
    loop {
        if cur == [0; 32] {
            return false;
        }
        match node.chain.blocks.get(&cur) {
            Some(nb) => {
                if nb.in_longest_chain {
                    return false;
                }
                cur = nb.previous_block_hash;
            }
            None => return true,
        }
        let _ = table;
    }
}
