//! Shared check context: counters, non-trivial digests, class histogram, samples, violations,
//! known findings, evidence writer, outcome capture (panic hook + catch_unwind).

use std::collections::{BTreeMap, BTreeSet, HashSet};
use std::hash::{Hash, Hasher};
use std::panic::AssertUnwindSafe;
use std::sync::Mutex;
use std::time::Instant;

use serde::{Deserialize, Serialize};
use serde_json::{json, Value};

/// Root of the verification tree: /verif, or $VERIF_DIR when a check runs from a snapshot copy.
pub fn verif_dir() -> String {
    std::env::var("VERIF_DIR").unwrap_or_else(|_| "/verif".to_string())
}

#[derive(Debug, Clone, Copy, PartialEq, Eq)]
pub enum Tier {
    Quick,
    Thorough,
}
impl Tier {
    pub fn name(&self) -> &'static str {
        match self {
            Tier::Quick => "quick",
            Tier::Thorough => "thorough",
        }
    }
    pub fn pick<T>(&self, q: T, t: T) -> T {
        match self {
            Tier::Quick => q,
            Tier::Thorough => t,
        }
    }
}

#[derive(Debug, Clone, Serialize, Deserialize)]
pub struct KnownFinding {
    pub id: String,
    pub properties: Vec<String>,
    pub key: String,
    pub what_fails: String,
    #[serde(default)]
    pub replay: Option<String>,
    pub status: String, // "open" | "fixed"
    #[serde(default)]
    pub fix_commit: Option<String>,
}

#[derive(Debug, Clone)]
pub struct Violation {
    pub key: String,
    pub what: String,
    pub replay: Value,
}

pub struct Ctx {
    pub id: String,
    pub tier: Tier,
    pub seed: u64,
    pub level: &'static str,
    pub evaluations: u64,
    pub nontrivial: HashSet<u64>,
    pub classes: BTreeMap<String, u64>,
    pub samples: Vec<Value>,
    pub sample_cap: usize,
    pub violations: Vec<Violation>,
    pub violation_keys: BTreeSet<String>,
    pub known: Vec<KnownFinding>,
    pub known_hits: BTreeMap<String, u64>,
    pub excluded_known: u64,
    pub discarded: u64,
    pub rule: String,
    pub assumptions: Vec<String>,
    pub extra: BTreeMap<String, Value>,
    pub exhaustive: Option<bool>,
    pub start: Instant,
    pub strict: bool,
}

pub fn digest<T: Hash>(t: &T) -> u64 {
    let mut h = std::collections::hash_map::DefaultHasher::new();
    t.hash(&mut h);
    h.finish()
}

pub fn load_known() -> Vec<KnownFinding> {
    let p = format!("{}/known_findings.json", verif_dir());
    match std::fs::read_to_string(&p) {
        Ok(s) => {
            let v: Value = serde_json::from_str(&s).expect("known_findings.json must parse");
            let arr = v.get("findings").cloned().unwrap_or(json!([]));
            serde_json::from_value(arr).expect("known_findings.json: findings[] schema")
        }
        Err(_) => vec![],
    }
}

impl Ctx {
    pub fn new(id: &str, tier: Tier, seed: u64, level: &'static str) -> Ctx {
        Ctx {
            id: id.to_string(),
            tier,
            seed,
            level,
            evaluations: 0,
            nontrivial: HashSet::new(),
            classes: BTreeMap::new(),
            samples: vec![],
            sample_cap: 5,
            violations: vec![],
            violation_keys: BTreeSet::new(),
            known: load_known()
                .into_iter()
                .filter(|k| k.properties.iter().any(|p| p == id))
                .collect(),
            known_hits: BTreeMap::new(),
            excluded_known: 0,
            discarded: 0,
            rule: String::new(),
            assumptions: vec![],
            extra: BTreeMap::new(),
            exhaustive: None,
            start: Instant::now(),
            strict: std::env::var("VERIF_STRICT").is_ok(),
        }
    }

    pub fn eval(&mut self) {
        self.evaluations += 1;
    }
    pub fn evals(&mut self, n: u64) {
        self.evaluations += n;
    }
    pub fn class(&mut self, c: &str) {
        *self.classes.entry(c.to_string()).or_insert(0) += 1;
    }
    pub fn nontrivial<T: Hash>(&mut self, t: &T) {
        self.nontrivial.insert(digest(t));
    }
    pub fn sample(&mut self, v: Value) {
        if self.samples.len() < self.sample_cap {
            self.samples.push(v);
        }
    }
    /// Sample keyed on a class so the few kept samples are diverse.
    pub fn sample_class(&mut self, class: &str, v: Value) {
        let k = format!("sampled:{class}");
        if !self.extra.contains_key(&k) && self.samples.len() < self.sample_cap + 3 {
            self.extra.insert(k, json!(true));
            self.samples.push(v);
        }
    }
    pub fn is_open_known(&self, key: &str) -> bool {
        if self.strict {
            return false;
        }
        self.known.iter().any(|k| k.status == "open" && k.key == key)
    }
    /// Report a property violation with its specific signature `key`.
    /// Keys listed as open known findings are counted, everything else is a VIOLATION.
    pub fn violation(&mut self, key: &str, what: String, replay: Value) {
        if self.is_open_known(key) {
            *self.known_hits.entry(key.to_string()).or_insert(0) += 1;
            return;
        }
        if self.violation_keys.insert(key.to_string()) {
            self.violations.push(Violation {
                key: key.to_string(),
                what,
                replay,
            });
        }
    }
    pub fn has_violation(&self) -> bool {
        !self.violations.is_empty()
    }

    /// Write evidence, print KNOWN-FINDING / VIOLATION lines, return the exit code.
    pub fn finish(mut self) -> i32 {
        let wall = self.start.elapsed().as_secs_f64();
        // print known findings that reproduced
        for (k, n) in &self.known_hits {
            let what = self
                .known
                .iter()
                .find(|f| &f.key == k)
                .map(|f| f.what_fails.clone())
                .unwrap_or_default();
            println!("KNOWN-FINDING: property={} key={} hits={} {}", self.id, k, n, what);
        }
        let mut viol_out = vec![];
        for v in &self.violations {
            let dir = format!("{}/replays/{}", verif_dir(), self.id);
            let _ = std::fs::create_dir_all(&dir);
            let name = match std::env::var("VERIF_REPLAY_FILE") {
                Ok(f) => f, // replay mode: the given file is the replay
                Err(_) => {
                    let name = format!("{}/viol_{:016x}.json", dir, digest(&v.key));
                    let body = json!({"property": self.id, "key": v.key, "what": v.what, "seed": self.seed, "tier": self.tier.name(), "replay": v.replay});
                    let _ = std::fs::write(&name, serde_json::to_string_pretty(&body).unwrap());
                    name
                }
            };
            println!("VIOLATION property={} replay={}", self.id, name);
            println!("  key={} :: {}", v.key, v.what);
            viol_out.push(json!({"key": v.key, "what": v.what, "replay": name}));
        }
        let mut coverage = serde_json::Map::new();
        coverage.insert("evaluations".into(), json!(self.evaluations));
        coverage.insert("distinct_nontrivial".into(), json!(self.nontrivial.len()));
        coverage.insert("rule".into(), json!(self.rule));
        if self.samples.is_empty() {
            self.samples.push(json!("no case sampled"));
        }
        coverage.insert("samples".into(), json!(self.samples));
        coverage.insert("classes".into(), json!(self.classes));
        coverage.insert("discarded".into(), json!(self.discarded));
        coverage.insert("excluded_known".into(), json!(self.excluded_known));
        coverage.insert("known_findings_reproduced".into(), json!(self.known_hits));
        if let Some(e) = self.exhaustive {
            coverage.insert("exhaustive".into(), json!(e));
        }
        for (k, v) in &self.extra {
            if !k.starts_with("sampled:") {
                coverage.insert(k.clone(), v.clone());
            }
        }
        let ev = json!({
            "property_id": self.id,
            "tier": self.tier.name(),
            "seed": self.seed,
            "level": self.level,
            "coverage": Value::Object(coverage),
            "assumptions": self.assumptions,
            "wall_s": wall,
            "violations": self.violations.len(),
            "violation_details": viol_out,
        });
        let dir = format!("{}/evidence", verif_dir());
        let _ = std::fs::create_dir_all(&dir);
        if std::env::var("VERIF_NO_EVIDENCE").is_err() {
            let _ = std::fs::write(
                format!("{}/{}.json", dir, self.id),
                serde_json::to_string_pretty(&ev).unwrap(),
            );
        }
        println!(
            "{} {} seed={} evaluations={} distinct_nontrivial={} violations={} known_reproduced={} wall={:.1}s",
            self.id,
            self.tier.name(),
            self.seed,
            self.evaluations,
            self.nontrivial.len(),
            self.violations.len(),
            self.known_hits.len(),
            wall
        );
        if self.violations.is_empty() {
            0
        } else {
            1
        }
    }
}

// ---------------------------------------------------------------------------
// Outcome capture
// ---------------------------------------------------------------------------

static LAST_PANIC: Mutex<Option<(String, String)>> = Mutex::new(None);
/// whether the most recent panic was raised from a source file of the code under test
static LAST_PANIC_IN_NODE_CODE: std::sync::atomic::AtomicBool = std::sync::atomic::AtomicBool::new(false);

/// Set by chain::build_history when the history's own builder node aborted on a block that is honest
/// and has only honest ancestors; pbt_run turns it into a violation of the running check (a history
/// that is silently cut short at such a block would hide the defect from every oracle behind it).
static BUILDER_ABORT: Mutex<Option<(String, String)>> = Mutex::new(None);
pub fn note_builder_abort() {
    let p = LAST_PANIC.lock().unwrap().clone().unwrap_or(("?".into(), "?".into()));
    *BUILDER_ABORT.lock().unwrap() = Some(p);
}
pub fn take_builder_abort() -> Option<(String, String)> {
    BUILDER_ABORT.lock().unwrap().take()
}

pub fn install_panic_hook() {
    std::panic::set_hook(Box::new(|info| {
        let in_node = info.location().map(|l| ["saito-core/src/", "saito-rust/src/", "saito-spammer/src/"].iter().any(|d| l.file().contains(d))).unwrap_or(false);
        LAST_PANIC_IN_NODE_CODE.store(in_node, std::sync::atomic::Ordering::SeqCst);
        let site = info
            .location()
            .map(|l| {
                let f = l.file();
                let f = f.rsplit('/').next().unwrap_or(f);
                format!("{}:{}", f, l.line())
            })
            .unwrap_or_else(|| "?".into());
        let msg = if let Some(s) = info.payload().downcast_ref::<&str>() {
            s.to_string()
        } else if let Some(s) = info.payload().downcast_ref::<String>() {
            s.clone()
        } else {
            "?".into()
        };
        let mut m: String = msg.chars().take(160).collect();
        m = m.replace('\n', " ");
        *LAST_PANIC.lock().unwrap() = Some((site, m));
        if std::env::var("VERIF_SHOW_PANICS").is_ok() {
            eprintln!("panic captured: {:?}", LAST_PANIC.lock().unwrap());
        }
    }));
}

#[derive(Debug, Clone, PartialEq)]
pub enum Outcome<T> {
    Returned(T),
    /// (file:line, message)
    Panicked(String, String),
}
impl<T> Outcome<T> {
    pub fn panicked(&self) -> Option<(&str, &str)> {
        match self {
            Outcome::Panicked(a, b) => Some((a, b)),
            _ => None,
        }
    }
    pub fn ok(self) -> Option<T> {
        match self {
            Outcome::Returned(t) => Some(t),
            _ => None,
        }
    }
}

pub fn catch<T>(f: impl FnOnce() -> T) -> Outcome<T> {
    match std::panic::catch_unwind(AssertUnwindSafe(f)) {
        Ok(v) => Outcome::Returned(v),
        Err(_) => {
            let p = LAST_PANIC
                .lock()
                .unwrap()
                .take()
                .unwrap_or(("?".into(), "?".into()));
            Outcome::Panicked(p.0, p.1)
        }
    }
}

/// Run a future to completion on a fresh single-threaded runtime, capturing panics.
pub fn run_async<T>(fut: impl std::future::Future<Output = T>) -> Outcome<T> {
    catch(|| {
        let rt = tokio::runtime::Builder::new_current_thread()
            .enable_time()
            .build()
            .unwrap();
        rt.block_on(fut)
    })
}

pub fn block_on<T>(fut: impl std::future::Future<Output = T>) -> T {
    let rt = tokio::runtime::Builder::new_current_thread()
        .enable_time()
        .build()
        .unwrap();
    rt.block_on(fut)
}

/// proptest runner with the run contract: fixed seed, no persistence.
pub fn runner(seed: u64, cases: u32) -> proptest::test_runner::TestRunner {
    use proptest::test_runner::{Config, RngAlgorithm, RngSeed, TestRng, TestRunner};
    let mut cfg = Config::default();
    cfg.cases = cases;
    cfg.failure_persistence = None;
    cfg.max_shrink_iters = 400;
    cfg.max_global_rejects = 1_000_000;
    cfg.rng_seed = RngSeed::Fixed(seed);
    let mut s = [0u8; 32];
    s[..8].copy_from_slice(&seed.to_le_bytes());
    s[8] = 0x5a;
    let rng = TestRng::from_seed(RngAlgorithm::ChaCha, &s);
    TestRunner::new_with_rng(cfg, rng)
}

// ---------------------------------------------------------------------------
// Generic property driver: generate, check, shrink to a minimal replay, continue behind findings
// ---------------------------------------------------------------------------

use proptest::strategy::Strategy;
use proptest::test_runner::{TestCaseError, TestError};
use std::cell::RefCell;

/// Runs `cases` generated cases of `strat` through `check`. `check` returns the list of
/// (key, description) violations of the case (empty = property held). The first unlisted violation
/// is shrunk by proptest (the closure only keeps failing while the *same key* reproduces), recorded
/// with the minimal value as its replay, and the search then continues with that key excluded.
pub fn pbt_run<S, F>(ctx: &mut Ctx, label: &str, cases: u32, strat: S, check: F)
where
    S: Strategy,
    S::Value: Clone + std::fmt::Debug + Serialize,
    F: Fn(&mut Ctx, &S::Value, bool) -> Vec<(String, String)>,
{
    let found: RefCell<BTreeSet<String>> = RefCell::new(BTreeSet::new());
    let mut remaining = cases;
    let mut round = 0u64;
    while remaining > 0 && round < 64 {
        let target: RefCell<Option<String>> = RefCell::new(None);
        let done = RefCell::new(0u32);
        let cell = RefCell::new(&mut *ctx);
        let mut runner = runner(
            cell.borrow().seed.wrapping_mul(0x9E37_79B9_7F4A_7C15).wrapping_add(round).wrapping_add(digest(&label)),
            remaining,
        );
        let result = runner.run(&strat, |v| {
            let counting = target.borrow().is_none();
            let mut c = cell.borrow_mut();
            if counting {
                *done.borrow_mut() += 1;
            }
            // safety net: a panic raised inside the code under test that a check did not expect at
            // that call is reported for the generated case instead of aborting the run; a panic
            // raised by harness code is a harness bug and propagates
            let _ = take_builder_abort();
            let viols = match catch(|| check(&mut **c, &v, counting)) {
                Outcome::Returned(mut x) => {
                    if let Some((site, msg)) = take_builder_abort() {
                        x.push((format!("{}|history_builder_aborts_on_honest_block|site={}", c.id, site), format!("while the history of this case was built, the builder node (the code under test, fed only honestly produced blocks on that branch) aborted at {site} on an honestly produced block: {msg}")));
                    }
                    x
                }
                Outcome::Panicked(site, msg) => {
                    if LAST_PANIC_IN_NODE_CODE.load(std::sync::atomic::Ordering::SeqCst) {
                        vec![(format!("{}|uncaught_panic_in_node_code|site={}", c.id, site), format!("a call into the code under test panicked at {site}: {msg}"))]
                    } else {
                        // proptest would turn a panic of this closure into a test failure, i.e. into
                        // a violation: a harness bug is never a violation - stop, inconclusive
                        eprintln!("HARNESS-PANIC in check {} at {site}: {msg}", c.id);
                        std::process::exit(3);
                    }
                }
            };
            let mut fresh: Vec<(String, String)> = vec![];
            for (k, w) in viols {
                if c.is_open_known(&k) {
                    if counting {
                        *c.known_hits.entry(k).or_insert(0) += 1;
                    }
                    continue;
                }
                if found.borrow().contains(&k) {
                    continue;
                }
                fresh.push((k, w));
            }
            if fresh.is_empty() {
                return Ok(());
            }
            let mut t = target.borrow_mut();
            match &*t {
                None => {
                    *t = Some(fresh[0].0.clone());
                    Err(TestCaseError::fail(format!("{} :: {}", fresh[0].0, fresh[0].1)))
                }
                Some(k) => {
                    if let Some(f) = fresh.iter().find(|f| &f.0 == k) {
                        Err(TestCaseError::fail(format!("{} :: {}", f.0, f.1)))
                    } else {
                        Ok(())
                    }
                }
            }
        });
        drop(cell);
        let d = *done.borrow();
        remaining = remaining.saturating_sub(d.max(1));
        match result {
            Ok(()) => break,
            Err(TestError::Fail(reason, value)) => {
                let r = reason.message().to_string();
                let (k, w) = match r.split_once(" :: ") {
                    Some((k, w)) => (k.to_string(), w.to_string()),
                    None => (r.clone(), r.clone()),
                };
                found.borrow_mut().insert(k.clone());
                ctx.violation(
                    &k,
                    w,
                    json!({"check": label, "case": serde_json::to_value(&value).unwrap_or(Value::Null)}),
                );
            }
            Err(TestError::Abort(r)) => {
                ctx.extra.insert(format!("aborted:{label}"), json!(r.message().to_string()));
                break;
            }
        }
        round += 1;
    }
}

// ---------------------------------------------------------------------------
// Optional logger (VERIF_LOG=error|warn|info|debug) for debugging replays
// ---------------------------------------------------------------------------
struct StderrLog;
impl log::Log for StderrLog {
    fn enabled(&self, _m: &log::Metadata) -> bool {
        true
    }
    fn log(&self, r: &log::Record) {
        eprintln!("[{}] {}:{} {}", r.level(), r.file().unwrap_or("?").rsplit('/').next().unwrap_or("?"), r.line().unwrap_or(0), r.args());
    }
    fn flush(&self) {}
}
static LOGGER: StderrLog = StderrLog;
pub fn install_logger() {
    if let Ok(l) = std::env::var("VERIF_LOG") {
        let lvl = match l.as_str() {
            "error" => log::LevelFilter::Error,
            "warn" => log::LevelFilter::Warn,
            "info" => log::LevelFilter::Info,
            "debug" => log::LevelFilter::Debug,
            _ => log::LevelFilter::Trace,
        };
        let _ = log::set_logger(&LOGGER);
        log::set_max_level(lvl);
    }
}
