//! Counting global allocator: lets a check bound the peak allocation of one call.
use std::alloc::{GlobalAlloc, Layout, System};
use std::sync::atomic::{AtomicUsize, Ordering};

pub struct Counting;
static CUR: AtomicUsize = AtomicUsize::new(0);
static PEAK: AtomicUsize = AtomicUsize::new(0);
static BIGGEST: AtomicUsize = AtomicUsize::new(0);

unsafe impl GlobalAlloc for Counting {
    unsafe fn alloc(&self, l: Layout) -> *mut u8 {
        let p = System.alloc(l);
        if !p.is_null() {
            let c = CUR.fetch_add(l.size(), Ordering::Relaxed) + l.size();
            PEAK.fetch_max(c, Ordering::Relaxed);
            BIGGEST.fetch_max(l.size(), Ordering::Relaxed);
        }
        p
    }
    unsafe fn dealloc(&self, p: *mut u8, l: Layout) {
        System.dealloc(p, l);
        CUR.fetch_sub(l.size(), Ordering::Relaxed);
    }
    unsafe fn realloc(&self, p: *mut u8, l: Layout, new_size: usize) -> *mut u8 {
        let q = System.realloc(p, l, new_size);
        if !q.is_null() {
            if new_size >= l.size() {
                let d = new_size - l.size();
                let c = CUR.fetch_add(d, Ordering::Relaxed) + d;
                PEAK.fetch_max(c, Ordering::Relaxed);
                BIGGEST.fetch_max(new_size, Ordering::Relaxed);
            } else {
                CUR.fetch_sub(l.size() - new_size, Ordering::Relaxed);
            }
        }
        q
    }
}

/// Runs `f` and returns (result, peak bytes allocated above the level at entry).
pub fn measure<T>(f: impl FnOnce() -> T) -> (T, usize) {
    let base = CUR.load(Ordering::Relaxed);
    PEAK.store(base, Ordering::Relaxed);
    let r = f();
    let peak = PEAK.load(Ordering::Relaxed);
    (r, peak.saturating_sub(base))
}
