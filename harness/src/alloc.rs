//! Counting global allocator: lets a check bound the peak allocation of one call.
//!
//! Requests of a gigabyte or more are not forwarded to the system allocator (which refuses or
//! aborts on the terabyte-sized requests a hostile length field can cause) but served by an
//! unreserved anonymous mapping: the address range is valid and zeroed, memory is committed only
//! where it is touched. The process therefore survives the request and the oracle sees its size.
use std::alloc::{GlobalAlloc, Layout, System};
use std::sync::atomic::{AtomicUsize, Ordering};

pub struct Counting;
static CUR: AtomicUsize = AtomicUsize::new(0);
static PEAK: AtomicUsize = AtomicUsize::new(0);
static BIGGEST: AtomicUsize = AtomicUsize::new(0);
const HUGE: usize = 1 << 30;

unsafe fn map_huge(size: usize) -> *mut u8 {
    let p = libc::mmap(std::ptr::null_mut(), size, libc::PROT_READ | libc::PROT_WRITE, libc::MAP_PRIVATE | libc::MAP_ANONYMOUS | libc::MAP_NORESERVE, -1, 0);
    if p == libc::MAP_FAILED {
        std::ptr::null_mut()
    } else {
        p as *mut u8
    }
}

fn count_up(size: usize) {
    let c = CUR.fetch_add(size, Ordering::Relaxed) + size;
    PEAK.fetch_max(c, Ordering::Relaxed);
    BIGGEST.fetch_max(size, Ordering::Relaxed);
}

unsafe impl GlobalAlloc for Counting {
    unsafe fn alloc(&self, l: Layout) -> *mut u8 {
        let p = if l.size() >= HUGE && l.align() <= 4096 { map_huge(l.size()) } else { System.alloc(l) };
        if !p.is_null() {
            count_up(l.size());
        }
        p
    }
    unsafe fn alloc_zeroed(&self, l: Layout) -> *mut u8 {
        if l.size() >= HUGE && l.align() <= 4096 {
            // a fresh anonymous mapping is zeroed already
            let p = map_huge(l.size());
            if !p.is_null() {
                count_up(l.size());
            }
            return p;
        }
        let p = System.alloc_zeroed(l);
        if !p.is_null() {
            count_up(l.size());
        }
        p
    }
    unsafe fn dealloc(&self, p: *mut u8, l: Layout) {
        if l.size() >= HUGE && l.align() <= 4096 {
            libc::munmap(p as *mut libc::c_void, l.size());
        } else {
            System.dealloc(p, l);
        }
        CUR.fetch_sub(l.size(), Ordering::Relaxed);
    }
    unsafe fn realloc(&self, p: *mut u8, l: Layout, new_size: usize) -> *mut u8 {
        if l.align() <= 4096 && (l.size() >= HUGE || new_size >= HUGE) {
            // moving between the two regimes (or inside the mapped one): allocate, copy, free
            let nl = Layout::from_size_align_unchecked(new_size, l.align());
            let q = self.alloc(nl);
            if !q.is_null() {
                std::ptr::copy_nonoverlapping(p, q, l.size().min(new_size));
                self.dealloc(p, l);
            }
            return q;
        }
        let q = System.realloc(p, l, new_size);
        if !q.is_null() {
            if new_size >= l.size() {
                count_up_delta(new_size - l.size(), new_size);
            } else {
                CUR.fetch_sub(l.size() - new_size, Ordering::Relaxed);
            }
        }
        q
    }
}

fn count_up_delta(d: usize, new_size: usize) {
    let c = CUR.fetch_add(d, Ordering::Relaxed) + d;
    PEAK.fetch_max(c, Ordering::Relaxed);
    BIGGEST.fetch_max(new_size, Ordering::Relaxed);
}

/// Runs `f` and returns (result, peak bytes allocated above the level at entry).
pub fn measure<T>(f: impl FnOnce() -> T) -> (T, usize) {
    let base = CUR.load(Ordering::Relaxed);
    PEAK.store(base, Ordering::Relaxed);
    let r = f();
    let peak = PEAK.load(Ordering::Relaxed);
    (r, peak.saturating_sub(base))
}
