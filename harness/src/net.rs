//! NetWorld: nodes built from the real RoutingThread / VerificationThread / ConsensusThread /
//! MiningThread structs, wired to harness-owned channels, a recording InterfaceIO and a shared
//! virtual clock. Every handler invocation is guarded (panic capture).

use std::collections::VecDeque;
use std::sync::atomic::{AtomicU64, Ordering};
use std::sync::Arc;
use std::time::Duration;

use saito_core::core::consensus::block::{Block, BlockType};
use saito_core::core::consensus::blockchain::Blockchain;
use saito_core::core::consensus::blockchain_sync_state::BlockchainSyncState;
use saito_core::core::consensus::mempool::Mempool;
use saito_core::core::consensus::peers::peer::{Peer, PeerStatus};
use saito_core::core::consensus::peers::peer_collection::PeerCollection;
use saito_core::core::consensus::wallet::Wallet;
use saito_core::core::consensus_thread::{ConsensusEvent, ConsensusStats, ConsensusThread};
use saito_core::core::defs::*;
use saito_core::core::io::network::Network;
use saito_core::core::io::network_event::NetworkEvent;
use saito_core::core::io::storage::Storage;
use saito_core::core::mining_thread::{MiningEvent, MiningThread};
use saito_core::core::process::keep_time::{KeepTime, Timer};
use saito_core::core::process::process_event::ProcessEvent;
use saito_core::core::process::version::Version;
use saito_core::core::routing_thread::{RoutingEvent, RoutingStats, RoutingThread};
use saito_core::core::util::configuration::*;
use saito_core::core::verification_thread::{VerificationThread, VerifyRequest};
use tokio::sync::mpsc::Receiver;
use tokio::sync::RwLock;

use crate::ctx::{block_on, catch, Outcome};
use crate::world::*;

pub struct VClock(pub Arc<AtomicU64>);
impl KeepTime for VClock {
    fn get_timestamp_in_ms(&self) -> Timestamp {
        self.0.load(Ordering::SeqCst)
    }
}

pub type CfgLock = Arc<RwLock<dyn Configuration + Send + Sync>>;

pub struct NetNode {
    pub rt: RoutingThread,
    pub ct: ConsensusThread,
    pub vt: VerificationThread,
    pub mt: MiningThread,
    pub io: MemIO,
    pub r_cons: Receiver<ConsensusEvent>,
    pub r_rout: Receiver<RoutingEvent>,
    pub r_ver: Receiver<VerifyRequest>,
    pub r_miner: Receiver<MiningEvent>,
    pub r_stat: Receiver<String>,
    pub cfg_lock: CfgLock,
    pub chain_lock: Arc<RwLock<Blockchain>>,
    pub mempool_lock: Arc<RwLock<Mempool>>,
    pub peers_lock: Arc<RwLock<PeerCollection>>,
    pub wallet_lock: Arc<RwLock<Wallet>>,
    pub cfg: Cfg,
    pub key_index: u8,
    pub pk: SaitoPublicKey,
    pub sk: SaitoPrivateKey,
    pub clock: Arc<AtomicU64>,
}

#[derive(Debug, Clone, PartialEq)]
pub enum HandlerOutcome {
    Ok,
    Panicked(String, String),
}

impl NetNode {
    pub fn new(key_index: u8, ncfg: NodeCfg, clock: Arc<AtomicU64>, static_peers: usize, batch_size: usize, io: MemIO) -> NetNode {
        Self::new_with(key_index, ncfg, clock, static_peers, batch_size, io, false)
    }
    /// `spv`: a lite node (Configuration::is_spv_mode)
    pub fn new_with(key_index: u8, ncfg: NodeCfg, clock: Arc<AtomicU64>, static_peers: usize, batch_size: usize, io: MemIO, spv: bool) -> NetNode {
        let (pk, sk) = key(key_index);
        let mut w = det_wallet(sk, pk);
        w.core_version = Version::new(1, 2, 3);
        w.wallet_version = Version::new(1, 2, 3);
        let wallet_lock = Arc::new(RwLock::new(w));
        let mut cfgv = ncfg.to_cfg();
        cfgv.spv = spv;
        for i in 0..static_peers {
            cfgv.peers.push(PeerConfig {
                host: format!("peer{i}"),
                port: 1000 + i as u16,
                protocol: "http".into(),
                synctype: "full".into(),
            });
        }
        let cfg_lock: CfgLock = Arc::new(RwLock::new(cfgv.clone()));
        let chain_lock = Arc::new(RwLock::new(Blockchain::new(wallet_lock.clone(), ncfg.gp, ncfg.social_stake, 60)));
        let mut mp = Mempool::new(wallet_lock.clone());
        mp.transactions = det_map();
        let mempool_lock = Arc::new(RwLock::new(mp));
        let peers_lock = Arc::new(RwLock::new(PeerCollection::default()));
        let timer = Timer {
            time_reader: Arc::new(VClock(clock.clone())),
            hasten_multiplier: 1,
            start_time: 0,
        };
        let (s_cons, r_cons) = tokio::sync::mpsc::channel(20_000);
        let (s_rout, r_rout) = tokio::sync::mpsc::channel(20_000);
        let (s_miner, r_miner) = tokio::sync::mpsc::channel(20_000);
        let (s_stat, r_stat) = tokio::sync::mpsc::channel(200_000);
        let (s_ver, r_ver) = tokio::sync::mpsc::channel(20_000);
        let net = || Network::new(Box::new(io.clone()), peers_lock.clone(), wallet_lock.clone(), cfg_lock.clone(), timer.clone());
        let rt = RoutingThread {
            blockchain_lock: chain_lock.clone(),
            mempool_lock: mempool_lock.clone(),
            sender_to_consensus: s_cons.clone(),
            sender_to_miner: s_miner.clone(),
            config_lock: cfg_lock.clone(),
            timer: timer.clone(),
            wallet_lock: wallet_lock.clone(),
            network: net(),
            storage: Storage::new(Box::new(io.clone())),
            reconnection_timer: 0,
            peer_removal_timer: 0,
            peer_file_write_timer: 0,
            last_emitted_block_fetch_count: 0,
            stats: RoutingStats::new(s_stat.clone()),
            senders_to_verification: vec![s_ver],
            last_verification_thread_index: 0,
            stat_sender: s_stat.clone(),
            blockchain_sync_state: BlockchainSyncState::new(batch_size),
        };
        let ct = ConsensusThread {
            mempool_lock: mempool_lock.clone(),
            blockchain_lock: chain_lock.clone(),
            wallet_lock: wallet_lock.clone(),
            generate_genesis_block: false,
            sender_to_router: s_rout,
            sender_to_miner: s_miner.clone(),
            block_producing_timer: 0,
            timer: timer.clone(),
            network: net(),
            storage: Storage::new(Box::new(io.clone())),
            stats: ConsensusStats::new(s_stat.clone()),
            txs_for_mempool: vec![],
            stat_sender: s_stat.clone(),
            config_lock: cfg_lock.clone(),
            produce_blocks_by_timer: false,
            delete_old_blocks: true,
        };
        let sv = |n: &str| StatVariable::new(n.to_string(), STAT_BIN_COUNT, s_stat.clone());
        let vt = VerificationThread {
            sender_to_consensus: s_cons.clone(),
            blockchain_lock: chain_lock.clone(),
            peer_lock: peers_lock.clone(),
            wallet_lock: wallet_lock.clone(),
            processed_txs: sv("a"),
            processed_blocks: sv("b"),
            processed_msgs: sv("c"),
            invalid_txs: sv("d"),
            stat_sender: s_stat.clone(),
        };
        let mt = MiningThread {
            wallet_lock: wallet_lock.clone(),
            sender_to_mempool: s_cons,
            timer: timer.clone(),
            miner_active: false,
            target: [0; 32],
            target_id: 0,
            difficulty: 0,
            public_key: [0; 33],
            mined_golden_tickets: 0,
            stat_sender: s_stat.clone(),
            config_lock: cfg_lock.clone(),
            enabled: true,
            mining_iterations: 1,
            mining_start: 0,
        };
        NetNode {
            rt,
            ct,
            vt,
            mt,
            io,
            r_cons,
            r_rout,
            r_ver,
            r_miner,
            r_stat,
            cfg_lock,
            chain_lock,
            mempool_lock,
            peers_lock,
            wallet_lock,
            cfg: cfgv,
            key_index,
            pk,
            sk,
            clock,
        }
    }

    fn wrap(o: Outcome<Option<()>>) -> HandlerOutcome {
        match o {
            Outcome::Returned(_) => HandlerOutcome::Ok,
            Outcome::Panicked(a, b) => HandlerOutcome::Panicked(a, b),
        }
    }
    fn wrap_unit(o: Outcome<()>) -> HandlerOutcome {
        match o {
            Outcome::Returned(_) => HandlerOutcome::Ok,
            Outcome::Panicked(a, b) => HandlerOutcome::Panicked(a, b),
        }
    }

    pub fn init(&mut self) -> HandlerOutcome {
        let a = Self::wrap_unit(catch(|| block_on(self.rt.on_init())));
        if a != HandlerOutcome::Ok {
            return a;
        }
        let b = Self::wrap_unit(catch(|| block_on(self.ct.on_init())));
        if b != HandlerOutcome::Ok {
            return b;
        }
        Self::wrap_unit(catch(|| block_on(self.mt.on_init())))
    }
    pub fn net_event(&mut self, ev: NetworkEvent) -> HandlerOutcome {
        Self::wrap(catch(|| block_on(self.rt.process_network_event(ev))))
    }
    pub fn routing_timer(&mut self, ms: u64) -> HandlerOutcome {
        Self::wrap(catch(|| block_on(self.rt.process_timer_event(Duration::from_millis(ms)))))
    }
    pub fn consensus_timer(&mut self, ms: u64) -> HandlerOutcome {
        Self::wrap(catch(|| block_on(self.ct.process_timer_event(Duration::from_millis(ms)))))
    }
    /// The consensus thread's producer, as its timer path calls it.
    pub fn bundle(&mut self, ts: u64) -> Outcome<bool> {
        catch(|| block_on(self.ct.bundle_block(ts, false)))
    }
    pub fn pop_verification(&mut self) -> Option<HandlerOutcome> {
        let ev = self.r_ver.try_recv().ok()?;
        Some(Self::wrap(catch(|| block_on(self.vt.process_event(ev)))))
    }
    pub fn pop_consensus(&mut self) -> Option<HandlerOutcome> {
        let ev = self.r_cons.try_recv().ok()?;
        Some(Self::wrap(catch(|| block_on(self.ct.process_event(ev)))))
    }
    pub fn pop_routing(&mut self) -> Option<HandlerOutcome> {
        let ev = self.r_rout.try_recv().ok()?;
        Some(Self::wrap(catch(|| block_on(self.rt.process_event(ev)))))
    }
    pub fn pop_mining(&mut self) -> Option<HandlerOutcome> {
        let ev = self.r_miner.try_recv().ok()?;
        Some(Self::wrap(catch(|| block_on(self.mt.process_event(ev)))))
    }
    /// Drain all internal channels (verification -> consensus -> routing -> mining) until quiet.
    /// Returns the first panic, if any.
    pub fn pump(&mut self) -> HandlerOutcome {
        let mut guard = 0;
        loop {
            let mut did = false;
            for f in [Self::pop_verification as fn(&mut Self) -> Option<HandlerOutcome>, Self::pop_consensus, Self::pop_routing, Self::pop_mining] {
                if let Some(o) = f(self) {
                    did = true;
                    if o != HandlerOutcome::Ok {
                        return o;
                    }
                }
            }
            while self.r_stat.try_recv().is_ok() {}
            guard += 1;
            if !did || guard > 100_000 {
                return HandlerOutcome::Ok;
            }
        }
    }

    pub fn cfg_ncfg(&self) -> NodeCfg {
        NodeCfg {
            gp: self.cfg.consensus.genesis_period,
            heartbeat: self.cfg.consensus.heartbeat_interval,
            social_stake: self.cfg.consensus.default_social_stake,
            loading_completed: self.cfg.blockchain.initial_loading_completed,
            prune: self.cfg.consensus.prune_after_blocks,
        }
    }

    /// Raw access to the routing thread's internal-event handler (for use inside `catch`).
    pub async fn rt_process(&mut self, ev: RoutingEvent) -> Option<()> {
        self.rt.process_event(ev).await
    }

    pub fn tip(&self) -> (u64, SaitoHash) {
        let c = block_on(self.chain_lock.read());
        (c.get_latest_block_id(), c.get_latest_block_hash())
    }

    /// Add a block directly (setup of chain state; not a handler under test).
    pub fn add_direct(&mut self, b: Block) -> &'static str {
        block_on(async {
            let mut chain = self.chain_lock.write().await;
            let mut mp = self.mempool_lock.write().await;
            let r = chain.add_block(b, &mut self.ct.storage, &mut mp, &self.cfg).await;
            res_str(&r)
        })
    }

    /// Register an already authenticated peer without running the handshake (setup only).
    pub fn insert_connected_peer(&mut self, index: u64, peer_key: u8, url: &str) {
        block_on(async {
            let mut peers = self.peers_lock.write().await;
            let mut p = Peer::new(index);
            p.peer_status = PeerStatus::Connected;
            p.public_key = Some(key(peer_key).0);
            p.block_fetch_url = url.to_string();
            p.core_version = Version::new(1, 2, 3);
            p.wallet_version = Version::new(1, 2, 3);
            peers.address_to_peers.insert(key(peer_key).0, index);
            peers.index_to_peers.insert(index, p);
        });
    }

    pub fn take_outbox(&self) -> VecDeque<(u64, Vec<u8>)> {
        std::mem::take(&mut *self.io.st.out.lock().unwrap())
    }
    pub fn take_fetches(&self) -> VecDeque<(SaitoHash, u64, String, u64)> {
        std::mem::take(&mut *self.io.st.fetches.lock().unwrap())
    }
}

pub fn block_bytes(b: &Block) -> Vec<u8> {
    b.serialize_for_net(BlockType::Full)
}
